/-
Invariant of the WKT parser's layout stack and the one-step lemmas behind
Properties/C06 (no assertion of lex.go / lex_stack.go is reachable under the call protocol).
-/
import GeomVerif.Model.WktParse

namespace GeomVerif.WktParse
open GeomVerif GeomVerif.Wkb

/-- `none` = a check returned false (the parse stops with an error). -/
def runEvs (feq : Ord → Ord → Bool) : Lx → List Ev → P (Option Lx)
  | l, [] => pure (some l)
  | l, e :: es =>
      match evStep feq l e with
      | .error m => .error m
      | .ok (l', true) => runEvs feq l' es
      | .ok (_, false) => pure none

def FrameOK (f : Frame) : Prop :=
  f.layout ≤ 4 ∧ (f.mustEmpty = true → f.layout = 3) ∧ (f.inBase = false → f.layout ≠ 0)

def Chain : List Frame → Prop
  | inner :: outer :: rest => (outer.layout = 0 ∨ inner.layout = outer.layout) ∧ Chain (outer :: rest)
  | _ => True

/-- Relation between the protocol automaton and the layout stack. -/
structure Rel (p : Proto) (s : List Frame) : Prop where
  frames : ∀ f ∈ s, FrameOK f
  chain : Chain s
  len : s.length = p.depth + 1
  pt : p.known = true → ∀ f, s.head? = some f → f.layout ≠ 0
  fresh : p.started = false → s = [⟨0, true, false⟩]

/-- The call does not panic, and if it lets the parse continue the new stack satisfies `Q`. -/
def Good (r : P (Lx × Bool)) (Q : List Frame → Prop) : Prop :=
  match r with
  | .error _ => False
  | .ok (l', true) => Q l'.lyt
  | .ok (_, false) => True

theorem curLayout_cons {l : Lx} {f : Frame} {rest : List Frame} (h : l.lyt = f :: rest) :
    curLayout l = .ok f.layout := by
  simp [curLayout, Stack.top, h, bind, Except.bind, pure, Except.pure]

theorem layoutName_ok {n : Nat} (h : n ≤ 4) : ∃ s, layoutName n = .ok s := by
  have : n = 0 ∨ n = 1 ∨ n = 2 ∨ n = 3 ∨ n = 4 := by omega
  rcases this with rfl | rfl | rfl | rfl | rfl <;> exact ⟨_, rfl⟩

@[simp] theorem setSyntaxError_lyt (l : Lx) (a b : String) : (setSyntaxError l a b).lyt = l.lyt := by
  unfold setSyntaxError setError; split <;> rfl

@[simp] theorem setParseError_lyt (l : Lx) (a b : String) : (setParseError l a b).lyt = l.lyt :=
  setSyntaxError_lyt l a b

theorem setIncorrectLayoutError_ok {l : Lx} {f : Frame} {rest : List Frame} (h : l.lyt = f :: rest)
    (hf : f.layout ≤ 4) {inc : Nat} (hi : inc ≤ 4) (hint : String) :
    ∃ l', setIncorrectLayoutError l inc hint = .ok l' ∧ l'.lyt = l.lyt := by
  obtain ⟨a, ha⟩ := layoutName_ok hf
  obtain ⟨b, hb⟩ := layoutName_ok hi
  simp [setIncorrectLayoutError, curLayout_cons h, ha, hb, bind, Except.bind, pure, Except.pure]

theorem mVariantError_ok {l : Lx} {f : Frame} {rest : List Frame} (h : l.lyt = f :: rest)
    (hf : f.layout ≤ 4) : ∃ l', mVariantError l = .ok l' ∧ l'.lyt = l.lyt :=
  setIncorrectLayoutError_ok h hf (by omega) _

theorem isCompatible_ok {a b : Nat} (ha : a ≤ 4) (hb : b ≤ 4) :
    isCompatibleLayout a b = .ok (!(a != b && a != 0)) := by
  simp [isCompatibleLayout, assertValidLayout, ha, hb, bind, Except.bind, pure, Except.pure]

/-- setLayoutIfNoLayout with a proper layout: replaces a NoLayout top, otherwise nothing. -/
theorem setLayoutIfNoLayout_ok {l : Lx} {f : Frame} {rest : List Frame} (h : l.lyt = f :: rest)
    {x : Nat} (hx : x = 1 ∨ x = 2 ∨ x = 3 ∨ x = 4) :
    ∃ l', setLayoutIfNoLayout l x = .ok l' ∧
      l'.lyt = (if f.layout = 0 then { f with layout := x } else f) :: rest := by
  unfold setLayoutIfNoLayout
  rw [curLayout_cons h]
  by_cases h0 : f.layout = 0
  · rcases hx with rfl | rfl | rfl | rfl <;>
      simp [h0, Stack.setTopLayout, Stack.top, h, bind, Except.bind, pure, Except.pure]
  · simp [h0, h, bind, Except.bind, pure, Except.pure]


/-! ## One-step lemmas -/

theorem Rel.cons_ne {p : Proto} {s : List Frame} (h : Rel p s) : ∃ f rest, s = f :: rest := by
  cases s with
  | nil => have := h.len; simp at this
  | cons f rest => exact ⟨f, rest, rfl⟩

/-- Replacing the top frame by one with the same layout. -/
theorem Rel.replace_top {p p' : Proto} {f f' : Frame} {rest : List Frame} (h : Rel p (f :: rest))
    (hl : f'.layout = f.layout) (hok : FrameOK f') (hd : p'.depth = p.depth)
    (hk : p'.known = true → p.known = true ∨ f.layout ≠ 0) (hs : p'.started = true) :
    Rel p' (f' :: rest) where
  frames := by
    intro g hg
    rcases List.mem_cons.mp hg with rfl | hg
    · exact hok
    · exact h.frames g (List.mem_cons_of_mem _ hg)
  chain := by
    have := h.chain
    cases rest with
    | nil => trivial
    | cons o r => simp only [Chain] at this ⊢; rw [hl]; exact this
  len := by have := h.len; simp at this ⊢; omega
  pt := by
    intro hk' g hg
    simp at hg; subst hg
    rw [hl]
    rcases hk hk' with h1 | h1
    · exact h.pt h1 f rfl
    · exact h1
  fresh := by intro h0; rw [hs] at h0; cases h0

/-- Giving a NoLayout top frame a proper layout. -/
theorem Rel.set_top {p p' : Proto} {f : Frame} {rest : List Frame} (h : Rel p (f :: rest))
    (h0 : f.layout = 0) {x : Nat} (hx : 1 ≤ x ∧ x ≤ 4) (hd : p'.depth = p.depth)
    (hs : p'.started = true) : Rel p' ({ f with layout := x } :: rest) where
  frames := by
    intro g hg
    rcases List.mem_cons.mp hg with rfl | hg
    · have hf := h.frames f (List.mem_cons_self ..)
      refine ⟨hx.2, ?_, ?_⟩
      · intro hm; have := hf.2.1 hm; omega
      · intro _; show x ≠ 0; omega
    · exact h.frames g (List.mem_cons_of_mem _ hg)
  chain := by
    have := h.chain
    cases rest with
    | nil => trivial
    | cons o r =>
      simp only [Chain] at this ⊢
      refine ⟨Or.inl ?_, this.2⟩
      rcases this.1 with h1 | h1
      · exact h1
      · omega
  len := by have := h.len; simp at this ⊢; omega
  pt := by intro _ g hg; simp at hg; subst hg; show x ≠ 0; omega
  fresh := by intro h1; rw [hs] at h1; cases h1

theorem Rel.same {p p' : Proto} {s : List Frame} (h : Rel p s) (hd : p'.depth = p.depth)
    (hk : p'.known = true → p.known = true) (hs : p'.started = true) : Rel p' s where
  frames := h.frames
  chain := h.chain
  len := by rw [h.len, hd]
  pt := fun hk' => h.pt (hk hk')
  fresh := by intro h1; rw [hs] at h1; cases h1

/-- After a successful setLayoutIfNoLayout the top has a layout. -/
theorem Rel.after_set {p p' : Proto} {f : Frame} {rest : List Frame} (h : Rel p (f :: rest))
    {x : Nat} (hx : 1 ≤ x ∧ x ≤ 4) (hd : p'.depth = p.depth) (hs : p'.started = true) :
    Rel p' ((if f.layout = 0 then { f with layout := x } else f) :: rest) := by
  by_cases h0 : f.layout = 0
  · rw [if_pos h0]; exact h.set_top h0 hx hd hs
  · rw [if_neg h0]
    exact h.replace_top rfl (h.frames f (List.mem_cons_self ..)) hd (fun _ => Or.inr h0) hs

theorem good_nonEmptyAllowed {p : Proto} {l : Lx} (h : Rel p l.lyt) :
    Good (validateNonEmptyGeometryAllowed l) (Rel { p with started := true }) := by
  obtain ⟨f, rest, hs⟩ := h.cons_ne
  rw [hs] at h
  have hf := h.frames f (List.mem_cons_self ..)
  unfold validateNonEmptyGeometryAllowed
  by_cases hm : f.mustEmpty = true
  · have h3 := hf.2.1 hm
    obtain ⟨l', hl', _⟩ := mVariantError_ok hs hf.1
    simp [Good, Stack.top, hs, hm, curLayout_cons hs, h3, hl', bind, Except.bind, pure, Except.pure]
  · simp [Good, Stack.top, hs, hm, bind, Except.bind, pure, Except.pure]
    exact h.same rfl id rfl


theorem good_baseEmptyAllowed {p : Proto} {l : Lx} (h : Rel p l.lyt) :
    Good (validateBaseTypeEmptyAllowed l) (Rel { p with started := true, known := true }) := by
  obtain ⟨f, rest, hs⟩ := h.cons_ne
  rw [hs] at h
  have hf := h.frames f (List.mem_cons_self ..)
  unfold validateBaseTypeEmptyAllowed
  by_cases hb : f.inBase = true
  · -- base-type context: EMPTY is XY
    by_cases h0 : f.layout = 0
    · obtain ⟨l', hl', hlyt⟩ := setLayoutIfNoLayout_ok (l := l) hs (x := 1) (Or.inl rfl)
      simp [Good, Stack.top, hs, hb, curLayout_cons hs, h0, hl', bind, Except.bind, pure, Except.pure]
      rw [hlyt, if_pos h0]
      exact h.set_top h0 (by omega) rfl rfl
    · by_cases h1 : f.layout = 1
      · simp [Good, Stack.top, hs, hb, curLayout_cons hs, h1, bind, Except.bind, pure, Except.pure]
        exact h.replace_top rfl hf rfl (fun _ => Or.inr (by omega)) rfl
      · obtain ⟨l', hl', _⟩ := setIncorrectLayoutError_ok (l := l) hs hf.1 (inc := 1) (by omega)
          "EMPTY is XY layout in base geometry type"
        have : ∃ k, f.layout = k + 2 := ⟨f.layout - 2, by omega⟩
        obtain ⟨k, hk⟩ := this
        simp [Good, Stack.top, hs, hb, curLayout_cons hs, hk, hl', bind, Except.bind, pure, Except.pure]
  · have hb' : f.inBase = false := by cases hfb : f.inBase <;> simp_all
    have hne := hf.2.2 hb'
    by_cases h3 : f.layout = 3
    · simp [Good, Stack.top, hs, hb', curLayout_cons hs, h3, Stack.setTopMustEmpty, bind, Except.bind, pure,
        Except.pure]
      have key := h.replace_top (p' := { p with started := true, known := true })
        (f' := { f with mustEmpty := false }) rfl
        ⟨hf.1, (by intro hm; cases hm), hf.2.2⟩ rfl (fun _ => Or.inr hne) rfl
      simpa [h3, hb'] using key
    · simp [Good, Stack.top, hs, hb', curLayout_cons hs, h3, bind, Except.bind, pure, Except.pure]
      exact h.replace_top rfl hf rfl (fun _ => Or.inr hne) rfl

theorem good_baseAllowed {p : Proto} {l : Lx} (h : Rel p l.lyt)
    (hp : ¬ (p.depth = 0 ∧ p.started = true)) :
    Good (validateBaseGeometryTypeAllowed l) (Rel { p with started := true }) := by
  obtain ⟨f, rest, hs⟩ := h.cons_ne
  rw [hs] at h
  have hf := h.frames f (List.mem_cons_self ..)
  unfold validateBaseGeometryTypeAllowed
  by_cases hb : f.inBase = true
  · by_cases h3 : f.layout = 3
    · -- not at the top level: there the stack is still fresh
      have hlen := h.len
      have htop : Stack.atTopLevel (f :: rest) = false := by
        cases hr : rest with
        | nil =>
          exfalso
          rw [hr] at hlen h
          have hd : p.depth = 0 := by simpa using hlen.symm
          have hst : p.started = false := by
            cases hst : p.started with
            | false => rfl
            | true => exact absurd ⟨hd, hst⟩ hp
          have := h.fresh hst
          simp at this
          rw [this] at h3; simp at h3
        | cons o r => simp [Stack.atTopLevel]
      obtain ⟨l', hl', _⟩ := mVariantError_ok hs hf.1
      simp [Good, Stack.top, hs, hb, curLayout_cons hs, h3, htop, hl', bind, Except.bind, pure, Except.pure]
    · simp [Good, Stack.top, hs, hb, curLayout_cons hs, h3, bind, Except.bind, pure, Except.pure]
      exact h.same rfl id rfl
  · have hb' : f.inBase = false := by cases hfb : f.inBase <;> simp_all
    by_cases h3 : f.layout = 3
    · simp [Good, Stack.top, hs, hb', curLayout_cons hs, h3, Stack.setTopMustEmpty, bind, Except.bind, pure,
        Except.pure]
      have key := h.replace_top (p' := { p with started := true }) (f' := { f with mustEmpty := true }) rfl
        ⟨hf.1, fun _ => h3, hf.2.2⟩ rfl (fun hk => Or.inl hk) rfl
      simpa [h3, hb'] using key
    · simp [Good, Stack.top, hs, hb', curLayout_cons hs, h3, bind, Except.bind, pure, Except.pure]
      exact h.same rfl id rfl

theorem good_setLayout {p : Proto} {l : Lx} (h : Rel p l.lyt) {x : Nat} (hx : x = 2 ∨ x = 3 ∨ x = 4) :
    Good (validateAndSetLayoutIfNoLayout l x) (Rel { p with started := true, known := true }) := by
  obtain ⟨f, rest, hs⟩ := h.cons_ne
  rw [hs] at h
  have hf := h.frames f (List.mem_cons_self ..)
  have hx4 : x ≤ 4 := by omega
  unfold validateAndSetLayoutIfNoLayout
  rw [curLayout_cons hs]
  simp only [bind, Except.bind, isCompatible_ok hf.1 hx4]
  by_cases hc : (!(f.layout != x && f.layout != 0)) = true
  · obtain ⟨l', hl', hlyt⟩ := setLayoutIfNoLayout_ok (l := l) hs (x := x) (by omega)
    simp [Good, hc, hl', pure, Except.pure]
    rw [hlyt]
    exact h.after_set (by omega) rfl rfl
  · obtain ⟨l', hl', _⟩ := setIncorrectLayoutError_ok (l := l) hs hf.1 hx4 ""
    simp [Good, hc, hl', pure, Except.pure]


theorem good_pushFrame {p : Proto} {l : Lx} (h : Rel p l.lyt) {x : Nat}
    (hx : x = 0 ∨ x = 2 ∨ x = 3 ∨ x = 4) :
    Good (validateAndPushLayoutStackFrame l x)
      (Rel { depth := p.depth + 1, started := true, known := if x = 0 then p.known else true }) := by
  obtain ⟨f, rest, hs⟩ := h.cons_ne
  rw [hs] at h
  have hf := h.frames f (List.mem_cons_self ..)
  have hx4 : x ≤ 4 := by omega
  unfold validateAndPushLayoutStackFrame
  rw [curLayout_cons hs]
  simp only [bind, Except.bind, isCompatible_ok hf.1 hx4]
  by_cases h0 : x = 0
  · subst h0
    simp [Good, Stack.push, Stack.top, hs, bind, Except.bind, pure, Except.pure]
    exact {
      frames := by
        intro g hg
        rcases List.mem_cons.mp hg with rfl | hg
        · exact ⟨hf.1, (by intro hm; cases hm), hf.2.2⟩
        · exact h.frames g hg
      chain := ⟨Or.inr rfl, h.chain⟩
      len := by have := h.len; simp at this ⊢; omega
      pt := by intro hk g hg; simp at hg; subst hg; exact h.pt hk f rfl
      fresh := by intro h1; cases h1 }
  · by_cases hc : (!(f.layout != x && f.layout != 0)) = true
    · have hcomp : f.layout = 0 ∨ f.layout = x := by
        simp at hc
        exact hc.elim Or.inr Or.inl
      have hres : Stack.push (f :: rest) x = .ok (⟨x, false, false⟩ :: f :: rest) := by
        rcases hx with rfl | rfl | rfl | rfl <;>
          simp_all [Stack.push, Stack.top, bind, Except.bind, pure, Except.pure]
      simp [Good, h0, hc, hs, hres, bind, Except.bind, pure, Except.pure]
      exact {
        frames := by
          intro g hg
          rcases List.mem_cons.mp hg with rfl | hg
          · exact ⟨hx4, (by intro hm; cases hm), fun _ => h0⟩
          · exact h.frames g hg
        chain := ⟨hcomp.imp id Eq.symm, h.chain⟩
        len := by have := h.len; simp at this ⊢; omega
        pt := by intro _ g hg; simp at hg; subst hg; exact h0
        fresh := by intro h1; cases h1 }
    · obtain ⟨l', hl', _⟩ := setIncorrectLayoutError_ok (l := l) hs hf.1 hx4 ""
      simp [Good, h0, hc, hl', pure, Except.pure]

theorem good_popFrame {p : Proto} {l : Lx} (h : Rel p l.lyt) (hd : p.depth ≠ 0) (hk : p.known = true) :
    Good (validateAndPopLayoutStackFrame l) (Rel { depth := p.depth - 1, started := true, known := true }) := by
  obtain ⟨f, rest, hs⟩ := h.cons_ne
  rw [hs] at h
  have hf := h.frames f (List.mem_cons_self ..)
  have hfl : f.layout ≠ 0 := h.pt hk f rfl
  cases hr : rest with
  | nil => have := h.len; rw [hr] at this; simp at this; omega
  | cons g rest' =>
    rw [hr] at h hs
    have hg := h.frames g (by simp)
    have hch := h.chain
    simp only [Chain] at hch
    have hcompat : (!(g.layout != f.layout && g.layout != 0)) = true := by
      rcases hch.1 with h1 | h1 <;> simp [h1]
    -- the rest of the stack on its own
    have hrest : Rel { depth := p.depth - 1, started := true, known := false } (g :: rest') := {
      frames := fun x hx => h.frames x (List.mem_cons_of_mem _ hx)
      chain := hch.2
      len := by have := h.len; simp at this ⊢; omega
      pt := by intro h1; cases h1
      fresh := by intro h1; cases h1 }
    have hl2 : ({ l with lyt := g :: rest' } : Lx).lyt = g :: rest' := rfl
    obtain ⟨l', hl', hlyt⟩ := setLayoutIfNoLayout_ok (l := { l with lyt := g :: rest' }) hl2
      (x := f.layout) (by have := hf.1; omega)
    unfold validateAndPopLayoutStackFrame
    simp [Good, Stack.pop, Stack.top, Stack.atTopLevel, hs, curLayout_cons hl2, isCompatible_ok hg.1 hf.1,
      hcompat, hl', bind, Except.bind, pure, Except.pure]
    rw [hlyt]
    exact hrest.after_set (by have := hf.1; omega) rfl rfl

theorem good_point {p : Proto} {l : Lx} (h : Rel p l.lyt) (cl : List Ord) :
    Good (isValidPoint l cl) (Rel { p with started := true, known := true }) := by
  obtain ⟨f, rest, hs⟩ := h.cons_ne
  rw [hs] at h
  have hf := h.frames f (List.mem_cons_self ..)
  obtain ⟨nm, hnm⟩ := layoutName_ok hf.1
  have key : ∀ n, (n = 2 ∨ n = 3 ∨ n = 4) →
      Good (validateStride l n) (Rel { p with started := true, known := true }) := by
    intro n hn
    unfold validateStride
    rw [curLayout_cons hs]
    have hv : ∃ b, isValidStrideForLayout n f.layout = .ok b := by
      have : f.layout = 0 ∨ f.layout = 1 ∨ f.layout = 2 ∨ f.layout = 3 ∨ f.layout = 4 := by
        have := hf.1; omega
      rcases this with h0 | h0 | h0 | h0 | h0 <;> rw [h0] <;> exact ⟨_, rfl⟩
    obtain ⟨b, hb⟩ := hv
    cases b with
    | false => simp [Good, hb, hnm, bind, Except.bind, pure, Except.pure]
    | true =>
      have hd : ∃ x, defaultLayoutForStride n = .ok x ∧ 1 ≤ x ∧ x ≤ 4 := by
        rcases hn with rfl | rfl | rfl
        · exact ⟨1, rfl, by omega⟩
        · exact ⟨2, rfl, by omega⟩
        · exact ⟨4, rfl, by omega⟩
      obtain ⟨x, hx, hx14⟩ := hd
      obtain ⟨l', hl', hlyt⟩ := setLayoutIfNoLayout_ok (l := l) hs (x := x) (by omega)
      simp [Good, hb, hx, hl', bind, Except.bind, pure, Except.pure]
      rw [hlyt]
      exact h.after_set hx14 rfl rfl
  unfold isValidPoint
  split
  · simp [Good, pure, Except.pure]
  · exact key _ (by omega)
  · exact key _ (by omega)
  · exact key _ (by omega)
  · simp [Good, pure, Except.pure]

theorem good_lineCheck {p : Proto} {l : Lx} (h : Rel p l.lyt) (cl : List Ord) :
    Good (isValidLineString l cl) (Rel { p with started := true }) := by
  obtain ⟨f, rest, hs⟩ := h.cons_ne
  unfold isValidLineString
  rw [curLayout_cons hs]
  simp only [bind, Except.bind]
  split
  · simp [Good, pure, Except.pure]
  · simp [Good, pure, Except.pure]; exact h.same (p' := { p with started := true }) rfl id rfl

theorem good_atEnd {p : Proto} {l : Lx} (h : Rel p l.lyt) (hd : p.depth = 0) :
    Good (validateLayoutStackAtEnd l) (Rel { p with started := true }) := by
  have hlen := h.len
  unfold validateLayoutStackAtEnd
  have key := h.same (p' := { p with started := true }) rfl id rfl
  simp [Good, Stack.atTopLevel, hlen, hd, bind, Except.bind, pure, Except.pure]
  simpa [hd] using key


theorem ringClosedLoop_ok (feq : Ord → Ord → Bool) (cl : List Ord) (s : Nat) (hs : s ≤ cl.length)
    (is : List Nat) (h1 : ∀ i ∈ is, i < cl.length ∧ i < s) : ∃ b, ringClosedLoop feq cl s is = .ok b := by
  induction is with
  | nil => exact ⟨true, rfl⟩
  | cons i rest ih =>
    obtain ⟨hi1, hi2⟩ := h1 i (List.mem_cons_self ..)
    obtain ⟨b, hb⟩ := ih (fun j hj => h1 j (List.mem_cons_of_mem _ hj))
    have e1 : cl[i]? = some cl[i] := List.getElem?_eq_getElem hi1
    have hlt : cl.length - s + i < cl.length := by omega
    have e2 : cl[cl.length - s + i]? = some cl[cl.length - s + i] := List.getElem?_eq_getElem hlt
    have e3 : ¬ (cl.length + i < s) := by omega
    unfold ringClosedLoop
    simp only [e1, e3, if_false, e2]
    split
    · exact ⟨b, hb⟩
    · exact ⟨false, rfl⟩

theorem good_ringCheck (feq : Ord → Ord → Bool) {p : Proto} {l : Lx} (h : Rel p l.lyt)
    (hk : p.known = true) (cl : List Ord) :
    Good (isValidPolygonRing feq l cl) (Rel { p with started := true }) := by
  obtain ⟨f, rest, hs⟩ := h.cons_ne
  have hf := h.frames f (by rw [hs]; exact List.mem_cons_self ..)
  have hfl : f.layout ≠ 0 := h.pt hk f (by rw [hs]; rfl)
  have hcases : f.layout = 1 ∨ f.layout = 2 ∨ f.layout = 3 ∨ f.layout = 4 := by have := hf.1; omega
  unfold isValidPolygonRing
  rw [curLayout_cons hs]
  simp only [bind, Except.bind]
  by_cases hlen : cl.length < 4 * Layout.stride f.layout
  · simp [Good, hlen, pure, Except.pure]
  · have hloop : ∃ b, ringClosedLoop feq cl (Layout.stride f.layout)
        (List.range (if (Layout.zIndex f.layout).isSome then 3 else 2)) = .ok b := by
      rcases hcases with h0 | h0 | h0 | h0 <;> rw [h0] at hlen ⊢ <;>
        simp only [Layout.stride, Layout.zIndex] at hlen ⊢ <;>
        refine ringClosedLoop_ok feq cl _ (by omega) _ ?_ <;>
        intro i hi <;> simp at hi <;> omega
    obtain ⟨b, hb⟩ := hloop
    cases b with
    | true =>
      simp [Good, hlen, hb, pure, Except.pure]
      exact h.same (p' := { p with started := true }) rfl id rfl
    | false => simp [Good, hlen, hb, pure, Except.pure]

/-- One protocol step: no panic, and the relation is re-established when the parse goes on. -/
theorem step_good (feq : Ord → Ord → Bool) {p p' : Proto} {l : Lx} (h : Rel p l.lyt) (e : Ev)
    (hp : p.step e = some p') : Good (evStep feq l e) (Rel p') := by
  cases e with
  | baseAllowed =>
    simp only [Proto.step] at hp
    split at hp
    · cases hp
    · rename_i hc
      cases hp
      exact good_baseAllowed h (by intro ⟨a, b⟩; simp [a, b] at hc)
  | setLayout x =>
    simp only [Proto.step] at hp
    split at hp
    · rename_i hc
      cases hp
      exact good_setLayout h (by simp at hc; omega)
    · cases hp
  | pushFrame x =>
    simp only [Proto.step] at hp
    split at hp
    · rename_i hc
      cases hp
      have hx : x = 0 := by simpa using hc
      have := good_pushFrame h (x := x) (Or.inl hx)
      simpa [hx, evStep] using this
    · split at hp
      · rename_i h0 hc
        cases hp
        have hx0 : x ≠ 0 := by simpa using h0
        have := good_pushFrame h (x := x) (by simp at hc; omega)
        simpa [hx0, evStep] using this
      · cases hp
  | popFrame =>
    simp only [Proto.step] at hp
    split at hp
    · cases hp
    · rename_i hc
      cases hp
      simp at hc
      exact good_popFrame h hc.1 hc.2
  | nonEmptyAllowed => simp only [Proto.step] at hp; cases hp; exact good_nonEmptyAllowed h
  | baseEmptyAllowed => simp only [Proto.step] at hp; cases hp; exact good_baseEmptyAllowed h
  | point cl => simp only [Proto.step] at hp; cases hp; exact good_point h cl
  | lineCheck cl => simp only [Proto.step] at hp; cases hp; exact good_lineCheck h cl
  | ringCheck cl =>
    simp only [Proto.step] at hp
    split at hp
    · rename_i hc; cases hp; exact good_ringCheck feq h hc cl
    · cases hp
  | atEnd =>
    simp only [Proto.step] at hp
    split at hp
    · rename_i hc; cases hp; exact good_atEnd h (by simpa using hc)
    · cases hp

theorem rel_init : Rel {} ({} : Lx).lyt where
  frames := by
    intro f hf
    have : f = ⟨0, true, false⟩ := by simpa using hf
    subst this
    refine ⟨by decide, ?_, ?_⟩
    · intro hm; exact absurd hm (by decide)
    · intro hb; exact absurd hb (by decide)
  chain := trivial
  len := rfl
  pt := by intro h; cases h
  fresh := fun _ => rfl

/-- Every call sequence that follows the protocol runs through the layout logic without
reaching an assertion, from any related state. -/
theorem runEvs_no_panic (feq : Ord → Ord → Bool) (evs : List Ev) :
    ∀ (p : Proto) (l : Lx), Rel p l.lyt → protocolOK p evs = true →
      ∀ msg, runEvs feq l evs ≠ .error msg := by
  induction evs with
  | nil => intro p l _ _ msg h; cases h
  | cons e es ih =>
    intro p l hrel hok msg
    unfold protocolOK at hok
    cases hst : p.step e with
    | none => simp [hst] at hok
    | some p' =>
      simp only [hst] at hok
      have hg := step_good feq hrel e hst
      unfold runEvs
      unfold Good at hg
      cases hev : evStep feq l e with
      | error m => simp [hev] at hg
      | ok r =>
        obtain ⟨l', b⟩ := r
        cases b with
        | true =>
          simp only [hev] at hg ⊢
          exact ih p' l' hg hok msg
        | false => simp [pure, Except.pure]

end GeomVerif.WktParse
