/-
Helper lemmas for C02: generic refinement of history runs, end-offset arithmetic,
part slicing, chunk reversal.
-/
import GeomVerif.Lemmas.Flat
import GeomVerif.Spec.C02

namespace GeomVerif
open GeomVerif.C02
variable {α : Type}

/-! ## Generic refinement: equal observations under a simulation relation -/

section refinement
variable {σ σ' π ρ κ : Type}

/-- Outcomes agree: same constructor, related values, equal errors. -/
def OutRel {β γ} (R : β → γ → Prop) : Outcome β → Outcome γ → Prop
  | .ok a, .ok b => R a b
  | .err e, .err e' => e = e'
  | .panic x, .panic y => x = y
  | _, _ => False

structure Simulation (m : Machine σ π ρ κ) (s : Machine σ' π ρ κ) (R : σ → σ' → Prop)
    (V : Layout → π → Prop) : Prop where
  push : ∀ a b l p, R a b → V l p → OutRel R (m.push a l p) (s.push b l p)
  rev : ∀ a b, R a b → OutRel R (m.rev a) (s.rev b)
  num : ∀ a b, R a b → m.num a = s.num b
  part : ∀ a b i, R a b → m.part a i = s.part b i
  coords : ∀ a b, R a b → m.coords a = s.coords b

def ValidOp (V : Layout → π → Prop) : Op π → Prop
  | .push l p => V l p
  | _ => True

theorem runFrom_refines
    {m : Machine σ π ρ κ} {s : Machine σ' π ρ κ} {R : σ → σ' → Prop}
    {V : Layout → π → Prop} (sim : Simulation m s R V) (ops : List (Op π)) :
    ∀ (a a2 : σ) (b b2 : σ'), R a b → R a2 b2 → (∀ op ∈ ops, ValidOp V op) →
      runFrom m (a, a2) ops = runFrom s (b, b2) ops := by
  induction ops with
  | nil => intro _ _ _ _ _ _ _; rfl
  | cons op ops ih =>
    intro a a2 b b2 h1 h2 hv
    have hvop : ValidOp V op := hv op (by simp)
    have hvrest : ∀ o ∈ ops, ValidOp V o := fun o ho => hv o (by simp [ho])
    cases op with
    | push l p =>
      have hp := sim.push a b l p h1 hvop
      simp only [runFrom, step]
      cases hm : m.push a l p <;> cases hs : s.push b l p <;> rw [hm, hs] at hp <;>
        simp only [OutRel] at hp
      · simp only [ih _ _ _ _ hp h2 hvrest]
      · simp only [ih _ _ _ _ h1 h2 hvrest, hp]
      · simp only [ih _ _ _ _ h1 h2 hvrest, hp]
    | rev =>
      have hp := sim.rev a b h1
      simp only [runFrom, step]
      cases hm : m.rev a <;> cases hs : s.rev b <;> rw [hm, hs] at hp <;>
        simp only [OutRel] at hp
      · simp only [ih _ _ _ _ hp h2 hvrest]
      · simp only [ih _ _ _ _ h1 h2 hvrest, hp]
      · simp only [ih _ _ _ _ h1 h2 hvrest, hp]
    | clone => simp only [runFrom, step, ih _ _ _ _ h1 h2 hvrest]
    | swap => simp only [runFrom, step, ih _ _ _ _ h2 h1 hvrest]
    | fork => simp only [runFrom, step, ih _ _ _ _ h1 h1 hvrest]
    | num => simp only [runFrom, step, ih _ _ _ _ h1 h2 hvrest, sim.num a b h1]
    | coords => simp only [runFrom, step, ih _ _ _ _ h1 h2 hvrest, sim.coords a b h1]
    | part i => simp only [runFrom, step, ih _ _ _ _ h1 h2 hvrest, sim.part a b i h1]

theorem run_refines
    {m : Machine σ π ρ κ} {s : Machine σ' π ρ κ} {R : σ → σ' → Prop}
    {V : Layout → π → Prop} (sim : Simulation m s R V) (l : Layout) (ops : List (Op π))
    (hinit : R (m.init l) (s.init l))
    (hv : ∀ op ∈ ops, ValidOp V op) : run m l ops = run s l ops :=
  runFrom_refines sim ops _ _ _ _ hinit hinit hv

end refinement

/-! ## End offsets and slicing of parts -/

theorem endsOf_append (off : Nat) (ps qs : List (List (List α))) :
    endsOf off (ps ++ qs) = endsOf off ps ++ endsOf (off + ps.flatten.flatten.length) qs := by
  induction ps generalizing off with
  | nil => simp [endsOf]
  | cons p ps ih =>
    simp only [List.cons_append, endsOf, ih, List.flatten_cons, List.flatten_append,
      List.length_append, Nat.add_assoc]

theorem endsOf_length (off : Nat) (ps : List (List (List α))) :
    (endsOf off ps).length = ps.length := by
  induction ps generalizing off with
  | nil => rfl
  | cons p ps ih => simp [endsOf, ih]

theorem endsOf_getElem? (off : Nat) (ps : List (List (List α))) (i : Nat) :
    (endsOf off ps)[i]? =
      if i < ps.length then some (off + (ps.take (i + 1)).flatten.flatten.length) else none := by
  induction ps generalizing off i with
  | nil => simp [endsOf]
  | cons p ps ih =>
    cases i with
    | zero => simp [endsOf]
    | succ i =>
      simp only [endsOf, List.getElem?_cons_succ, ih, List.length_cons, Nat.add_lt_add_iff_right,
        List.take_succ_cons, List.flatten_cons, List.flatten_append, List.length_append,
        Nat.add_assoc]

theorem split_at (ps : List (List (List α))) (i : Nat) (p : List (List α))
    (h : ps[i]? = some p) : ps = ps.take i ++ [p] ++ ps.drop (i + 1) := by
  induction ps generalizing i with
  | nil => simp at h
  | cons q qs ih =>
    cases i with
    | zero => simp at h; simp [h]
    | succ i =>
      simp only [List.getElem?_cons_succ] at h
      have := ih i h
      simp only [List.take_succ_cons, List.cons_append, List.drop_succ_cons, List.cons.injEq,
        true_and]
      simpa using this

theorem take_succ_of_getElem? (ps : List (List (List α))) (i : Nat) (p : List (List α))
    (h : ps[i]? = some p) : ps.take (i + 1) = ps.take i ++ [p] := by
  induction ps generalizing i with
  | nil => simp at h
  | cons q qs ih =>
    cases i with
    | zero => simp at h; simp [h]
    | succ i =>
      simp only [List.getElem?_cons_succ] at h
      simp [List.take_succ_cons, ih i h]

/-! ## Chunks and reversal -/

theorem chunkN_flatten (s : Nat) (cs : List (List α)) (h : ∀ c ∈ cs, c.length = s)
    (b : List α) : chunkN s cs.length (cs.flatten ++ b) = cs := by
  induction cs with
  | nil => rfl
  | cons c cs ih =>
    have hc : c.length = s := h c (by simp)
    simp only [List.length_cons, chunkN, List.flatten_cons, List.append_assoc]
    rw [← hc, List.take_left, List.drop_left, hc, ih (fun c' hc' => h c' (by simp [hc']))]

theorem reverse_flatten_length (cs : List (List α)) :
    cs.reverse.flatten.length = cs.flatten.length := by
  induction cs with
  | nil => rfl
  | cons c cs ih =>
    simp only [List.reverse_cons, List.flatten_append, List.length_append, List.flatten_cons,
      List.flatten_nil, List.append_nil, ih]; omega

theorem reverse1_ok (a b : List α) (cs : List (List α)) (s : Nat) (hs : 0 < s)
    (h : ∀ c ∈ cs, c.length = s) :
    reverse1 (a ++ cs.flatten ++ b) a.length (a.length + cs.flatten.length) s
      = .ok (a ++ cs.reverse.flatten ++ b) := by
  have hlen := flatten_length_of_all cs s h
  unfold reverse1
  rw [if_neg (show ¬ s = 0 by omega)]
  cases cs with
  | nil =>
    rw [if_pos (by simp; omega)]; simp
  | cons c cs' =>
    have hlt : ¬ (a.length + (c :: cs').flatten.length < a.length + s) := by
      rw [hlen]; simp only [List.length_cons, Nat.add_mul]; omega
    have hlt2 : ¬ ((a ++ (c :: cs').flatten ++ b).length < a.length + (c :: cs').flatten.length) := by
      simp only [List.length_append]; omega
    rw [if_neg hlt, if_neg hlt2]
    have hmid : List.take (a.length + (c :: cs').flatten.length - a.length)
        (List.drop a.length (a ++ (c :: cs').flatten ++ b)) = (c :: cs').flatten := by
      rw [List.append_assoc, List.drop_left, Nat.add_sub_cancel_left, List.take_left]
    dsimp only
    rw [hmid, hlen, Nat.mul_div_cancel _ hs]
    have hch := chunkN_flatten s (c :: cs') h []
    rw [List.append_nil] at hch
    rw [hch]
    have hd : List.drop ((c :: cs').length * s) (c :: cs').flatten = [] := by
      rw [← hlen]; simp
    have ht : List.take a.length (a ++ (c :: cs').flatten ++ b) = a := by
      rw [List.append_assoc, List.take_left]
    have hdr : List.drop (a.length + (c :: cs').length * s) (a ++ (c :: cs').flatten ++ b) = b := by
      rw [← hlen]
      have : a.length + (c :: cs').flatten.length = (a ++ (c :: cs').flatten).length := by simp
      rw [this, List.drop_left]
    rw [hd, ht, hdr, List.append_nil]

theorem reverse2_ok (a b : List α) (ps : List (List (List α))) (s : Nat) (hs : 0 < s)
    (h : ∀ c ∈ ps.flatten, c.length = s) :
    reverse2 (a ++ ps.flatten.flatten ++ b) a.length (endsOf a.length ps) s
      = .ok (a ++ (ps.map List.reverse).flatten.flatten ++ b) := by
  induction ps generalizing a with
  | nil => simp [reverse2, endsOf]
  | cons p ps ih =>
    have hp : ∀ c ∈ p, c.length = s := fun c hc => h c (by simp [hc])
    have hrest : ∀ c ∈ ps.flatten, c.length = s := fun c hc => h c (by
      simp only [List.flatten_cons, List.mem_append]; exact Or.inr hc)
    simp only [endsOf, reverse2, List.flatten_cons, List.flatten_append, List.map_cons]
    have e1 : a ++ (p.flatten ++ ps.flatten.flatten) ++ b
        = a ++ p.flatten ++ (ps.flatten.flatten ++ b) := by simp [List.append_assoc]
    rw [e1, reverse1_ok a _ p s hs hp, Outcome.bind_ok]
    have e2 : a ++ p.reverse.flatten ++ (ps.flatten.flatten ++ b)
        = (a ++ p.reverse.flatten) ++ ps.flatten.flatten ++ b := by simp [List.append_assoc]
    have := ih (a ++ p.reverse.flatten) hrest
    simp only [List.length_append, reverse_flatten_length] at this
    rw [e2, this]; simp [List.append_assoc]

theorem endsOf_map_reverse (off : Nat) (ps : List (List (List α))) :
    endsOf off (ps.map List.reverse) = endsOf off ps := by
  induction ps generalizing off with
  | nil => rfl
  | cons p ps ih => simp [endsOf, reverse_flatten_length, ih]

theorem mem_flatten_map_reverse (ps : List (List (List α))) (c : List α) :
    c ∈ (ps.map List.reverse).flatten ↔ c ∈ ps.flatten := by
  simp only [List.mem_flatten, List.mem_map]
  constructor
  · rintro ⟨l, ⟨p, hp, rfl⟩, hc⟩; exact ⟨p, hp, by simpa using hc⟩
  · rintro ⟨p, hp, hc⟩; exact ⟨p.reverse, ⟨p, hp, rfl⟩, by simpa using hc⟩

end GeomVerif
