/-
Helper lemmas for C09: the area / length loops over a well-formed flat array equal
sums over consecutive coordinate pairs (hence depend only on X,Y and never panic).
-/
import Mathlib.Tactic.Ring
import GeomVerif.Lemmas.Multi
import GeomVerif.Model.Measure

namespace GeomVerif
variable {α : Type}

/-- Arithmetic record of a commutative ring with abstract `sqrt` and `half`. -/
def ringArith [CommRing α] (sqrt half : α → α) : Arith α :=
  ⟨0, (· + ·), (· - ·), (· * ·), sqrt, half⟩

theorem idx_append_right {β} (l1 l2 : List β) (k : Nat) :
    idx (l1 ++ l2) (l1.length + k) = idx l2 k := by
  unfold idx
  rw [List.getElem?_append_right (by omega)]
  simp

theorem idx_append_left {β} (l1 l2 : List β) (k : Nat) (h : k < l1.length) :
    idx (l1 ++ l2) k = idx l1 k := by
  unfold idx
  rw [List.getElem?_append_left h]

/-- X,Y of a coordinate (first two ordinates). -/
def xyOf [Inhabited α] (c : List α) : α × α := (c[0]!, c[1]!)

section sums
variable [CommRing α]

/-- Σ (y₁−y₀)(x₁+x₀) over consecutive pairs. -/
def trapSum : List (α × α) → α
  | a :: b :: rest => (b.2 - a.2) * (b.1 + a.1) + trapSum (b :: rest)
  | _ => 0

/-- Σ (x₀y₁ − x₁y₀) over consecutive pairs: twice the signed shoelace area, CCW positive. -/
def crossSum : List (α × α) → α
  | a :: b :: rest => (a.1 * b.2 - b.1 * a.2) + crossSum (b :: rest)
  | _ => 0

/-- Σ sqrt(dx²+dy²) over consecutive pairs. -/
def lenSum (sqrt : α → α) : List (α × α) → α
  | a :: b :: rest =>
      sqrt ((b.1 - a.1) * (b.1 - a.1) + (b.2 - a.2) * (b.2 - a.2)) + lenSum sqrt (b :: rest)
  | _ => 0

/-- Telescoping identity behind the trapezoid formula. -/
theorem trapSum_eq_crossSum_add (p : α × α) (ps : List (α × α)) :
    trapSum (p :: ps) =
      crossSum (p :: ps) + (((p :: ps).getLast (by simp)).1 * ((p :: ps).getLast (by simp)).2
        - p.1 * p.2) := by
  induction ps generalizing p with
  | nil => simp [trapSum, crossSum]
  | cons q qs ih =>
    simp only [trapSum, crossSum, ih q, List.getLast_cons (List.cons_ne_nil q qs)]
    ring

end sums

section loops
variable [CommRing α] [Inhabited α]

/-- One coordinate `p` (length `s ≥ 2`) followed by the coordinates `rest`. -/
theorem doubleArea1Loop_eq (sq hf : α → α) (s : Nat) (hs : 2 ≤ s) (pre p b : List α)
    (rest : List (List α)) (hp : p.length = s) (hall : ∀ c ∈ rest, c.length = s) (acc : α) :
    doubleArea1Loop (ringArith sq hf) (pre ++ p ++ rest.flatten ++ b) s rest.length
        (pre.length + s) acc
      = .ok (acc + trapSum (xyOf p :: rest.map xyOf)) := by
  induction rest generalizing pre p acc with
  | nil => simp [doubleArea1Loop, trapSum]
  | cons q rest ih =>
    have hq : q.length = s := hall q (by simp)
    have hrest : ∀ c ∈ rest, c.length = s := fun c hc => hall c (by simp [hc])
    obtain ⟨x0, y0, p', rfl⟩ : ∃ x0 y0 p', p = x0 :: y0 :: p' := by
      match p, hp with
      | x0 :: y0 :: p', _ => exact ⟨x0, y0, p', rfl⟩
      | [_], h => simp at h; omega
      | [], h => simp at h; omega
    obtain ⟨x1, y1, q', rfl⟩ : ∃ x1 y1 q', q = x1 :: y1 :: q' := by
      match q, hq with
      | x1 :: y1 :: q', _ => exact ⟨x1, y1, q', rfl⟩
      | [_], h => simp at h; omega
      | [], h => simp at h; omega
    simp only [List.length_cons, doubleArea1Loop, List.flatten_cons, List.map_cons]
    -- the four reads
    have e1 : pre ++ (x0 :: y0 :: p') ++ ((x1 :: y1 :: q') ++ rest.flatten) ++ b
        = (pre ++ (x0 :: y0 :: p')) ++ ((x1 :: y1 :: q') ++ rest.flatten ++ b) := by
      simp [List.append_assoc]
    have hl : (pre ++ (x0 :: y0 :: p')).length = pre.length + s := by
      simp only [List.length_append, hp]
    have r1 : idx (pre ++ (x0 :: y0 :: p') ++ ((x1 :: y1 :: q') ++ rest.flatten) ++ b)
        (pre.length + s + 1) = .ok y1 := by
      rw [e1, ← hl, idx_append_right]; rfl
    have r3 : idx (pre ++ (x0 :: y0 :: p') ++ ((x1 :: y1 :: q') ++ rest.flatten) ++ b)
        (pre.length + s) = .ok x1 := by
      rw [e1, ← hl]
      have := idx_append_right (pre ++ (x0 :: y0 :: p')) ((x1 :: y1 :: q') ++ rest.flatten ++ b) 0
      rw [Nat.add_zero] at this; rw [this]; rfl
    have e2 : pre ++ (x0 :: y0 :: p') ++ ((x1 :: y1 :: q') ++ rest.flatten) ++ b
        = pre ++ ((x0 :: y0 :: p') ++ (((x1 :: y1 :: q') ++ rest.flatten) ++ b)) := by
      simp [List.append_assoc]
    have r2 : idx (pre ++ (x0 :: y0 :: p') ++ ((x1 :: y1 :: q') ++ rest.flatten) ++ b)
        (pre.length + s + 1 - s) = .ok y0 := by
      have : pre.length + s + 1 - s = pre.length + 1 := by omega
      rw [this, e2, idx_append_right]; rfl
    have r4 : idx (pre ++ (x0 :: y0 :: p') ++ ((x1 :: y1 :: q') ++ rest.flatten) ++ b)
        (pre.length + s - s) = .ok x0 := by
      have : pre.length + s - s = pre.length + 0 := by omega
      rw [this, e2, idx_append_right]; rfl
    rw [r1, r2, r3, r4]
    simp only [Outcome.bind_ok]
    have e3 : pre ++ (x0 :: y0 :: p') ++ ((x1 :: y1 :: q') ++ rest.flatten) ++ b
        = (pre ++ (x0 :: y0 :: p')) ++ (x1 :: y1 :: q') ++ rest.flatten ++ b := by
      simp [List.append_assoc]
    have := ih (pre ++ (x0 :: y0 :: p')) (x1 :: y1 :: q') hq hrest
      ((ringArith sq hf).add acc ((ringArith sq hf).mul ((ringArith sq hf).sub y1 y0)
        ((ringArith sq hf).add x1 x0)))
    rw [hl] at this
    rw [e3, this]
    simp only [ringArith, trapSum, xyOf, List.getElem!_cons_zero, List.getElem!_cons_succ]
    congr 1; ring

theorem loopCount_eq (off s k : Nat) (hs : 0 < s) :
    loopCount off (off + (k + 1) * s) s = k := by
  unfold loopCount
  have : off + (k + 1) * s - (off + s) + s - 1 = (s - 1) + s * k := by
    rw [Nat.add_mul, Nat.mul_comm s k]; omega
  rw [this, Nat.add_mul_div_left _ _ hs, Nat.div_eq_of_lt (by omega)]; omega

/-- `doubleArea1` over a run of coordinates inside a larger flat array. -/
theorem doubleArea1_eq (sq hf : α → α) (s : Nat) (hs : 2 ≤ s) (a b : List α)
    (cs : List (List α)) (hall : ∀ c ∈ cs, c.length = s) :
    doubleArea1 (ringArith sq hf) (a ++ cs.flatten ++ b) a.length (a.length + cs.flatten.length) s
      = .ok (trapSum (cs.map xyOf)) := by
  unfold doubleArea1
  rw [if_neg (by omega)]
  cases cs with
  | nil =>
    have : loopCount a.length (a.length + ([] : List (List α)).flatten.length) s = 0 := by
      unfold loopCount; simp; omega
    rw [this]; simp [doubleArea1Loop, trapSum, ringArith]
  | cons p rest =>
    have hp : p.length = s := hall p (by simp)
    have hrest : ∀ c ∈ rest, c.length = s := fun c hc => hall c (by simp [hc])
    have hlen : (p :: rest).flatten.length = (rest.length + 1) * s := by
      rw [flatten_length_of_all _ s hall]; simp
    rw [hlen, loopCount_eq _ _ _ (by omega)]
    have e : a ++ (p :: rest).flatten ++ b = a ++ p ++ rest.flatten ++ b := by
      simp [List.append_assoc]
    rw [e, doubleArea1Loop_eq sq hf s hs a p b rest hp hrest]
    simp [ringArith]

/-- `doubleArea2`: the sum over the rings, for any position of empty rings. -/
theorem doubleArea2_eq (sq hf : α → α) (s : Nat) (hs : 2 ≤ s) (a b : List α)
    (css : List (List (List α))) (hall : ∀ c ∈ css.flatten, c.length = s) (acc : α) :
    doubleArea2 (ringArith sq hf) (a ++ css.flatten.flatten ++ b) s (endsOf a.length css) a.length acc
      = .ok (acc + (css.map fun cs => trapSum (cs.map xyOf)).sum) := by
  induction css generalizing a acc with
  | nil => simp [doubleArea2, endsOf]
  | cons cs rest ih =>
    have hcs : ∀ c ∈ cs, c.length = s := fun c hc => hall c (by simp [hc])
    have hrest : ∀ c ∈ rest.flatten, c.length = s := fun c hc => hall c (by
      simp only [List.flatten_cons, List.mem_append]; exact Or.inr hc)
    simp only [endsOf, doubleArea2, List.flatten_cons, List.flatten_append, List.map_cons,
      List.sum_cons]
    have e1 : a ++ (cs.flatten ++ rest.flatten.flatten) ++ b
        = a ++ cs.flatten ++ (rest.flatten.flatten ++ b) := by simp [List.append_assoc]
    have e2 : a ++ cs.flatten ++ (rest.flatten.flatten ++ b)
        = (a ++ cs.flatten) ++ rest.flatten.flatten ++ b := by simp [List.append_assoc]
    rw [e1, doubleArea1_eq sq hf s hs a _ cs hcs, Outcome.bind_ok, e2]
    have := ih (a ++ cs.flatten) hrest ((ringArith sq hf).add acc (trapSum (cs.map xyOf)))
    simp only [List.length_append] at this
    rw [this]; simp only [ringArith]; congr 1; ring

theorem endsOf_getLast_some (off : Nat) (css : List (List (List α))) (h : css ≠ []) :
    (endsOf off css).getLast? = some (off + css.flatten.flatten.length) := by
  rw [endsOf_getLast]; simp [h]

/-- `doubleArea3`: the sum over polygons, for any position of empty polygons. -/
theorem doubleArea3_eq (sq hf : α → α) (s : Nat) (hs : 2 ≤ s) (a b : List α)
    (csss : List (List (List (List α)))) (hall : ∀ c ∈ csss.flatten.flatten, c.length = s)
    (acc : α) :
    doubleArea3 (ringArith sq hf) (a ++ csss.flatten.flatten.flatten ++ b) s
        (endssOf a.length csss) a.length acc
      = .ok (acc + (csss.map fun css => (css.map fun cs => trapSum (cs.map xyOf)).sum).sum) := by
  induction csss generalizing a acc with
  | nil => simp [doubleArea3, endssOf]
  | cons css rest ih =>
    have hcss : ∀ c ∈ css.flatten, c.length = s := fun c hc => hall c (by
      simp only [List.flatten_cons, List.flatten_append, List.mem_append]; exact Or.inl hc)
    have hrest : ∀ c ∈ rest.flatten.flatten, c.length = s := fun c hc => hall c (by
      simp only [List.flatten_cons, List.flatten_append, List.mem_append]; exact Or.inr hc)
    simp only [endssOf, doubleArea3, List.flatten_cons, List.flatten_append, List.map_cons,
      List.sum_cons]
    by_cases hnil : css = []
    · subst hnil
      simp only [endsOf, List.getLast?_nil, List.flatten_nil, List.nil_append, List.length_nil,
        Nat.add_zero, List.map_nil, List.sum_nil]
      rw [ih a hrest acc]; congr 1; ring
    · rw [endsOf_getLast_some _ _ hnil]
      simp only
      have e1 : a ++ (css.flatten.flatten ++ rest.flatten.flatten.flatten) ++ b
          = a ++ css.flatten.flatten ++ (rest.flatten.flatten.flatten ++ b) := by
        simp [List.append_assoc]
      have e2 : a ++ css.flatten.flatten ++ (rest.flatten.flatten.flatten ++ b)
          = (a ++ css.flatten.flatten) ++ rest.flatten.flatten.flatten ++ b := by
        simp [List.append_assoc]
      rw [e1, doubleArea2_eq sq hf s hs a _ css hcss, Outcome.bind_ok, e2]
      have := ih (a ++ css.flatten.flatten) hrest
        ((ringArith sq hf).add acc ((ringArith sq hf).zero +
          (css.map fun cs => trapSum (cs.map xyOf)).sum))
      simp only [List.length_append] at this
      rw [this]; simp only [ringArith]; congr 1; ring

/-! ### Length: same structure with Σ sqrt(dx²+dy²) -/

/-- One coordinate `p` (length `s ≥ 2`) followed by the coordinates `rest`. -/
theorem length1Loop_eq (sq hf : α → α) (s : Nat) (hs : 2 ≤ s) (pre p b : List α)
    (rest : List (List α)) (hp : p.length = s) (hall : ∀ c ∈ rest, c.length = s) (acc : α) :
    length1Loop (ringArith sq hf) (pre ++ p ++ rest.flatten ++ b) s rest.length
        (pre.length + s) acc
      = .ok (acc + lenSum sq (xyOf p :: rest.map xyOf)) := by
  induction rest generalizing pre p acc with
  | nil => simp [length1Loop, lenSum]
  | cons q rest ih =>
    have hq : q.length = s := hall q (by simp)
    have hrest : ∀ c ∈ rest, c.length = s := fun c hc => hall c (by simp [hc])
    obtain ⟨x0, y0, p', rfl⟩ : ∃ x0 y0 p', p = x0 :: y0 :: p' := by
      match p, hp with
      | x0 :: y0 :: p', _ => exact ⟨x0, y0, p', rfl⟩
      | [_], h => simp at h; omega
      | [], h => simp at h; omega
    obtain ⟨x1, y1, q', rfl⟩ : ∃ x1 y1 q', q = x1 :: y1 :: q' := by
      match q, hq with
      | x1 :: y1 :: q', _ => exact ⟨x1, y1, q', rfl⟩
      | [_], h => simp at h; omega
      | [], h => simp at h; omega
    simp only [List.length_cons, length1Loop, List.flatten_cons, List.map_cons]
    -- the four reads
    have e1 : pre ++ (x0 :: y0 :: p') ++ ((x1 :: y1 :: q') ++ rest.flatten) ++ b
        = (pre ++ (x0 :: y0 :: p')) ++ ((x1 :: y1 :: q') ++ rest.flatten ++ b) := by
      simp [List.append_assoc]
    have hl : (pre ++ (x0 :: y0 :: p')).length = pre.length + s := by
      simp only [List.length_append, hp]
    have r1 : idx (pre ++ (x0 :: y0 :: p') ++ ((x1 :: y1 :: q') ++ rest.flatten) ++ b)
        (pre.length + s + 1) = .ok y1 := by
      rw [e1, ← hl, idx_append_right]; rfl
    have r3 : idx (pre ++ (x0 :: y0 :: p') ++ ((x1 :: y1 :: q') ++ rest.flatten) ++ b)
        (pre.length + s) = .ok x1 := by
      rw [e1, ← hl]
      have := idx_append_right (pre ++ (x0 :: y0 :: p')) ((x1 :: y1 :: q') ++ rest.flatten ++ b) 0
      rw [Nat.add_zero] at this; rw [this]; rfl
    have e2 : pre ++ (x0 :: y0 :: p') ++ ((x1 :: y1 :: q') ++ rest.flatten) ++ b
        = pre ++ ((x0 :: y0 :: p') ++ (((x1 :: y1 :: q') ++ rest.flatten) ++ b)) := by
      simp [List.append_assoc]
    have r2 : idx (pre ++ (x0 :: y0 :: p') ++ ((x1 :: y1 :: q') ++ rest.flatten) ++ b)
        (pre.length + s + 1 - s) = .ok y0 := by
      have : pre.length + s + 1 - s = pre.length + 1 := by omega
      rw [this, e2, idx_append_right]; rfl
    have r4 : idx (pre ++ (x0 :: y0 :: p') ++ ((x1 :: y1 :: q') ++ rest.flatten) ++ b)
        (pre.length + s - s) = .ok x0 := by
      have : pre.length + s - s = pre.length + 0 := by omega
      rw [this, e2, idx_append_right]; rfl
    rw [r3, r4, r1, r2]
    simp only [Outcome.bind_ok]
    have e3 : pre ++ (x0 :: y0 :: p') ++ ((x1 :: y1 :: q') ++ rest.flatten) ++ b
        = (pre ++ (x0 :: y0 :: p')) ++ (x1 :: y1 :: q') ++ rest.flatten ++ b := by
      simp [List.append_assoc]
    have := ih (pre ++ (x0 :: y0 :: p')) (x1 :: y1 :: q') hq hrest
      ((ringArith sq hf).add acc ((ringArith sq hf).sqrt ((ringArith sq hf).add
        ((ringArith sq hf).mul ((ringArith sq hf).sub x1 x0) ((ringArith sq hf).sub x1 x0))
        ((ringArith sq hf).mul ((ringArith sq hf).sub y1 y0) ((ringArith sq hf).sub y1 y0)))))
    rw [hl] at this
    rw [e3, this]
    simp only [ringArith, lenSum, xyOf, List.getElem!_cons_zero, List.getElem!_cons_succ]
    rw [add_assoc]

/-- `length1` over a run of coordinates inside a larger flat array. -/
theorem length1_eq (sq hf : α → α) (s : Nat) (hs : 2 ≤ s) (a b : List α)
    (cs : List (List α)) (hall : ∀ c ∈ cs, c.length = s) :
    length1 (ringArith sq hf) (a ++ cs.flatten ++ b) a.length (a.length + cs.flatten.length) s
      = .ok (lenSum sq (cs.map xyOf)) := by
  unfold length1
  rw [if_neg (by omega)]
  cases cs with
  | nil =>
    have : loopCount a.length (a.length + ([] : List (List α)).flatten.length) s = 0 := by
      unfold loopCount; simp; omega
    rw [this]; simp [length1Loop, lenSum, ringArith]
  | cons p rest =>
    have hp : p.length = s := hall p (by simp)
    have hrest : ∀ c ∈ rest, c.length = s := fun c hc => hall c (by simp [hc])
    have hlen : (p :: rest).flatten.length = (rest.length + 1) * s := by
      rw [flatten_length_of_all _ s hall]; simp
    rw [hlen, loopCount_eq _ _ _ (by omega)]
    have e : a ++ (p :: rest).flatten ++ b = a ++ p ++ rest.flatten ++ b := by
      simp [List.append_assoc]
    rw [e, length1Loop_eq sq hf s hs a p b rest hp hrest]
    simp [ringArith]

/-- `length2`: the sum over the rings, for any position of empty rings. -/
theorem length2_eq (sq hf : α → α) (s : Nat) (hs : 2 ≤ s) (a b : List α)
    (css : List (List (List α))) (hall : ∀ c ∈ css.flatten, c.length = s) (acc : α) :
    length2 (ringArith sq hf) (a ++ css.flatten.flatten ++ b) s (endsOf a.length css) a.length acc
      = .ok (acc + (css.map fun cs => lenSum sq (cs.map xyOf)).sum) := by
  induction css generalizing a acc with
  | nil => simp [length2, endsOf]
  | cons cs rest ih =>
    have hcs : ∀ c ∈ cs, c.length = s := fun c hc => hall c (by simp [hc])
    have hrest : ∀ c ∈ rest.flatten, c.length = s := fun c hc => hall c (by
      simp only [List.flatten_cons, List.mem_append]; exact Or.inr hc)
    simp only [endsOf, length2, List.flatten_cons, List.flatten_append, List.map_cons,
      List.sum_cons]
    have e1 : a ++ (cs.flatten ++ rest.flatten.flatten) ++ b
        = a ++ cs.flatten ++ (rest.flatten.flatten ++ b) := by simp [List.append_assoc]
    have e2 : a ++ cs.flatten ++ (rest.flatten.flatten ++ b)
        = (a ++ cs.flatten) ++ rest.flatten.flatten ++ b := by simp [List.append_assoc]
    rw [e1, length1_eq sq hf s hs a _ cs hcs, Outcome.bind_ok, e2]
    have := ih (a ++ cs.flatten) hrest ((ringArith sq hf).add acc (lenSum sq (cs.map xyOf)))
    simp only [List.length_append] at this
    rw [this]; simp only [ringArith]; congr 1; ring

/-- `length3`: the sum over polygons, for any position of empty polygons. -/
theorem length3_eq (sq hf : α → α) (s : Nat) (hs : 2 ≤ s) (a b : List α)
    (csss : List (List (List (List α)))) (hall : ∀ c ∈ csss.flatten.flatten, c.length = s)
    (acc : α) :
    length3 (ringArith sq hf) (a ++ csss.flatten.flatten.flatten ++ b) s
        (endssOf a.length csss) a.length acc
      = .ok (acc + (csss.map fun css => (css.map fun cs => lenSum sq (cs.map xyOf)).sum).sum) := by
  induction csss generalizing a acc with
  | nil => simp [length3, endssOf]
  | cons css rest ih =>
    have hcss : ∀ c ∈ css.flatten, c.length = s := fun c hc => hall c (by
      simp only [List.flatten_cons, List.flatten_append, List.mem_append]; exact Or.inl hc)
    have hrest : ∀ c ∈ rest.flatten.flatten, c.length = s := fun c hc => hall c (by
      simp only [List.flatten_cons, List.flatten_append, List.mem_append]; exact Or.inr hc)
    simp only [endssOf, length3, List.flatten_cons, List.flatten_append, List.map_cons,
      List.sum_cons]
    by_cases hnil : css = []
    · subst hnil
      simp only [endsOf, List.getLast?_nil, List.flatten_nil, List.nil_append, List.length_nil,
        Nat.add_zero, List.map_nil, List.sum_nil]
      rw [ih a hrest acc]; congr 1; ring
    · rw [endsOf_getLast_some _ _ hnil]
      simp only
      have e1 : a ++ (css.flatten.flatten ++ rest.flatten.flatten.flatten) ++ b
          = a ++ css.flatten.flatten ++ (rest.flatten.flatten.flatten ++ b) := by
        simp [List.append_assoc]
      have e2 : a ++ css.flatten.flatten ++ (rest.flatten.flatten.flatten ++ b)
          = (a ++ css.flatten.flatten) ++ rest.flatten.flatten.flatten ++ b := by
        simp [List.append_assoc]
      rw [e1, length2_eq sq hf s hs a _ css hcss, Outcome.bind_ok, e2]
      have := ih (a ++ css.flatten.flatten) hrest
        ((ringArith sq hf).add acc ((ringArith sq hf).zero +
          (css.map fun cs => lenSum sq (cs.map xyOf)).sum))
      simp only [List.length_append] at this
      rw [this]; simp only [ringArith]; congr 1; ring

end loops
end GeomVerif
