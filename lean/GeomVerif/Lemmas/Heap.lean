/-
Frame reasoning for the heap model (C16).
-/
import GeomVerif.Model.Heap

namespace GeomVerif.Heap

/-! ## Basic facts about arrays -/

theorem writeAt_length (a : List Cell) (pos : Nat) (vs : List Cell) :
    (writeAt a pos vs).length = a.length := by
  unfold writeAt
  simp only [List.length_append, List.length_take, List.length_drop]
  omega

theorem getD_setArr_ne (h : Heap) (i j : Nat) (a : List Cell) (hne : j ≠ i) :
    (setArr h i a).getD j [] = h.getD j [] := by
  unfold setArr
  simp [List.getD_eq_getElem?_getD, List.getElem?_set, Ne.symm hne]

theorem getD_setArr_eq (h : Heap) (i : Nat) (a : List Cell) (hi : i < h.length) :
    (setArr h i a).getD i [] = a := by
  unfold setArr
  simp [List.getD_eq_getElem?_getD, List.getElem?_set, hi]

theorem setArr_length (h : Heap) (i : Nat) (a : List Cell) : (setArr h i a).length = h.length := by
  simp [setArr]

theorem getD_append_left (h : Heap) (x : List Cell) (i : Nat) (hi : i < h.length) :
    (h ++ [x]).getD i [] = h.getD i [] := by
  simp [List.getD_eq_getElem?_getD, List.getElem?_append_left hi]

theorem getD_append_new (h : Heap) (x : List Cell) : (h ++ [x]).getD h.length [] = x := by
  simp [List.getD_eq_getElem?_getD]

/-- Reading depends only on the slice's own array. -/
theorem read_congr (h h' : Heap) (s : Slice) (e : h'.getD s.arr [] = h.getD s.arr []) :
    read h' s = read h s := by
  unfold read; rw [e]

/-! ## Reads after writes inside one array -/

theorem take_drop_writeAt_same (a : List Cell) (pos : Nat) (vs : List Cell)
    (hfit : pos + vs.length ≤ a.length) :
    ((writeAt a pos vs).drop pos).take vs.length = vs := by
  unfold writeAt
  have h1 : (a.take pos).length = pos := by simp; omega
  have h2 : vs.take (a.length - pos) = vs := List.take_of_length_le (by omega)
  rw [h2, List.append_assoc, List.drop_left' h1, List.take_left]

/-- Part of the array before the written window is unchanged. -/
theorem take_writeAt (a : List Cell) (pos : Nat) (vs : List Cell) (n : Nat) (hn : n ≤ pos)
    (hp : pos ≤ a.length) : (writeAt a pos vs).take n = a.take n := by
  unfold writeAt
  rw [List.append_assoc, List.take_append_of_le_length (by simp; omega), List.take_take]
  congr 1; omega

theorem read_alloc_new (h : Heap) (vs : List Cell) (cap : Nat) :
    read (alloc h vs cap).1 (alloc h vs cap).2 = vs := by
  unfold read alloc
  simp only [getD_append_new, List.drop_zero]
  rw [List.take_left]

theorem read_alloc_old (h : Heap) (vs : List Cell) (cap : Nat) (t : Slice) (ht : t.arr < h.length) :
    read (alloc h vs cap).1 t = read h t := by
  apply read_congr; unfold alloc; exact getD_append_left h _ _ ht

theorem writeAt_eq (a : List Cell) (q : Nat) (vs : List Cell) (hfit : q + vs.length ≤ a.length) :
    writeAt a q vs = a.take q ++ vs ++ a.drop (q + vs.length) := by
  unfold writeAt
  have : vs.take (a.length - q) = vs := List.take_of_length_le (by omega)
  rw [this]

theorem getElem?_writeAt (a : List Cell) (q : Nat) (vs : List Cell)
    (hfit : q + vs.length ≤ a.length) (j : Nat) :
    (writeAt a q vs)[j]? = if q ≤ j ∧ j < q + vs.length then vs[j - q]? else a[j]? := by
  rw [writeAt_eq a q vs hfit]
  have hq : (a.take q).length = q := by simp; omega
  by_cases h1 : j < q
  · rw [List.append_assoc, List.getElem?_append_left (by omega)]
    simp [List.getElem?_take, h1]; intro h; omega
  · by_cases h2 : j < q + vs.length
    · rw [List.getElem?_append_left (by simp; omega), List.getElem?_append_right (by omega), hq]
      simp [h2]; omega
    · rw [List.getElem?_append_right (by simp; omega)]
      simp only [List.length_append, hq, List.getElem?_drop]
      have : ¬ (q ≤ j ∧ j < q + vs.length) := by omega
      rw [if_neg this]; congr 1; omega

theorem getElem?_read (h : Heap) (s : Slice) (j : Nat) :
    (read h s)[j]? = if j < s.len then (h.getD s.arr [])[s.off + j]? else none := by
  unfold read
  simp only [List.getElem?_take, List.getElem?_drop]

/-- `s[i] = v`. -/
theorem read_wr (h : Heap) (s : Slice) (i : Nat) (v : Cell) (hi : i < s.len)
    (harr : s.arr < h.length) (hfit : s.off + s.len ≤ (h.getD s.arr []).length) :
    read (setArr h s.arr (writeAt (h.getD s.arr []) (s.off + i) [v])) s = (read h s).set i v := by
  apply List.ext_getElem?
  intro j
  rw [getElem?_read, getD_setArr_eq _ _ _ harr,
    getElem?_writeAt _ _ _ (by simp only [List.length_cons, List.length_nil]; omega),
    List.getElem?_set, getElem?_read]
  by_cases hj : j < s.len
  · simp only [hj, if_true, List.length_cons, List.length_nil]
    by_cases hij : i = j
    · subst hij
      have : s.off + i ≤ s.off + i ∧ s.off + i < s.off + i + (0 + 1) := by omega
      rw [if_pos this]
      simp only [Nat.sub_self, List.getElem?_cons_zero, if_true]
      have hlen : i < (read h s).length := by
        unfold read; simp only [List.length_take, List.length_drop]; omega
      simp [hlen]
    · have : ¬ (s.off + i ≤ s.off + j ∧ s.off + j < s.off + i + (0 + 1)) := by omega
      rw [if_neg this, if_neg hij]
  · simp only [hj, if_false]
    by_cases hij : i = j
    · omega
    · rw [if_neg hij]

/-- Overwriting the whole window. -/
theorem read_wrAll (h : Heap) (s : Slice) (vs : List Cell) (hl : vs.length = s.len)
    (harr : s.arr < h.length) (hfit : s.off + s.len ≤ (h.getD s.arr []).length) :
    read (setArr h s.arr (writeAt (h.getD s.arr []) s.off vs)) s = vs := by
  unfold read
  rw [getD_setArr_eq _ _ _ harr, ← hl]
  exact take_drop_writeAt_same _ _ _ (by omega)

/-- In-place append into spare capacity. -/
theorem read_app (h : Heap) (s : Slice) (vs : List Cell)
    (harr : s.arr < h.length) (hfit : s.off + s.len + vs.length ≤ (h.getD s.arr []).length) :
    read (setArr h s.arr (writeAt (h.getD s.arr []) (s.off + s.len) vs))
        { s with len := s.len + vs.length } = read h s ++ vs := by
  apply List.ext_getElem?
  intro j
  rw [getElem?_read, getD_setArr_eq _ _ _ harr, getElem?_writeAt _ _ _ (by omega)]
  simp only
  have hrl : (read h s).length = s.len := by
    unfold read; simp only [List.length_take, List.length_drop]; omega
  by_cases hj : j < s.len
  · have : ¬ (s.off + s.len ≤ s.off + j ∧ s.off + j < s.off + s.len + vs.length) := by omega
    rw [if_pos (by omega), if_neg this, List.getElem?_append_left (by omega), getElem?_read,
      if_pos hj]
  · rw [List.getElem?_append_right (by omega), hrl]
    by_cases hj2 : j < s.len + vs.length
    · rw [if_pos hj2, if_pos (by omega)]; congr 1; omega
    · rw [if_neg hj2]
      rw [List.getElem?_eq_none (by omega)]

/-! ## Well-formedness, separation, frame -/

structure WFSlice (h : Heap) (s : Slice) : Prop where
  inb : s.arr < h.length
  lencap : s.len ≤ s.cap
  fits : s.off + s.cap ≤ (h.getD s.arr []).length

def arrays (o : ObjH) : List Nat := o.slices.filterMap (Option.map Slice.arr)

/-- Every slice lies inside its array, and distinct slices of one object use distinct arrays. -/
structure ObjWF (h : Heap) (o : ObjH) : Prop where
  wf : ∀ s, some s ∈ o.slices → WFSlice h s
  nodup : ∀ (j k : Nat) (t s : Slice), j ≠ k → o.slices[j]? = some (some t) → o.slices[k]? = some (some s) →
    t.arr ≠ s.arr

/-- `h'` extends `h`: no array shrinks, arrays outside `M` keep their contents. -/
structure Extends (h h' : Heap) (M : List Nat) : Prop where
  len : h.length ≤ h'.length
  keep : ∀ i, i < h.length → i ∉ M → h'.getD i [] = h.getD i []
  size : ∀ i, i < h.length → (h'.getD i []).length = (h.getD i []).length

theorem WFSlice.mono {h h' : Heap} {M : List Nat} (e : Extends h h' M) {s : Slice}
    (w : WFSlice h s) : WFSlice h' s :=
  ⟨Nat.lt_of_lt_of_le w.inb e.len, w.lencap, by rw [e.size _ w.inb]; exact w.fits⟩

theorem mem_arrays {o : ObjH} {x : Nat} : x ∈ arrays o ↔ ∃ s, some s ∈ o.slices ∧ s.arr = x := by
  unfold arrays
  simp only [List.mem_filterMap]
  constructor
  · rintro ⟨os, hos, h⟩
    cases os with
    | none => simp at h
    | some s => exact ⟨s, hos, by simpa using h⟩
  · rintro ⟨s, hs, rfl⟩; exact ⟨some s, hs, rfl⟩

/-- Frame: an object whose arrays are untouched observes nothing. -/
theorem absObj_frame {h h' : Heap} {M : List Nat} (e : Extends h h' M) (b : ObjH)
    (wb : ObjWF h b) (hd : ∀ x ∈ arrays b, x ∉ M) : absObj h' b = absObj h b := by
  unfold absObj
  congr 1
  apply List.map_congr_left
  intro os hos
  cases os with
  | none => rfl
  | some s =>
    simp only [Option.map_some, Option.some.injEq]
    apply read_congr
    exact e.keep _ (wb.wf s hos).inb (hd _ (mem_arrays.2 ⟨s, hos, rfl⟩))

theorem ObjWF.mono {h h' : Heap} {M : List Nat} (e : Extends h h' M) {b : ObjH}
    (wb : ObjWF h b) : ObjWF h' b :=
  ⟨fun s hs => (wb.wf s hs).mono e, wb.nodup⟩

theorem extends_setArr (h : Heap) (i : Nat) (a : List Cell) (hi : i < h.length)
    (hl : a.length = (h.getD i []).length) : Extends h (setArr h i a) [i] where
  len := by rw [setArr_length]; exact Nat.le_refl _
  keep := by
    intro j _ hj
    exact getD_setArr_ne h i j a (by simpa using hj)
  size := by
    intro j hj
    by_cases e : j = i
    · subst e; rw [getD_setArr_eq _ _ _ hi, hl]
    · rw [getD_setArr_ne h i j a e]

theorem extends_alloc (h : Heap) (vs : List Cell) (cap : Nat) : Extends h (alloc h vs cap).1 [] where
  len := by simp [alloc]
  keep := by intro i hi _; exact getD_append_left h _ i hi
  size := by intro i hi; rw [show (alloc h vs cap).1 = h ++ [_] from rfl, getD_append_left h _ i hi]

theorem wf_alloc (h : Heap) (vs : List Cell) (cap : Nat) :
    WFSlice (alloc h vs cap).1 (alloc h vs cap).2 where
  inb := by simp [alloc]
  lencap := by simp [alloc]; omega
  fits := by
    simp only [alloc, getD_append_new, List.length_append, List.length_replicate]; omega

theorem extends_refl_of_empty {h h' : Heap} (e : Extends h h' []) (M : List Nat) : Extends h h' M :=
  ⟨e.len, fun i hi _ => e.keep i hi (by simp), e.size⟩

theorem mem_of_getElem? {β} {l : List β} {k : Nat} {x : β} (h : l[k]? = some x) : x ∈ l :=
  List.mem_of_getElem? h

/-- Reads of the untouched slices after an in-place write through slice `k`. -/
theorem abs_set_inplace (h h' : Heap) (a : ObjH) (wa : ObjWF h a) (k : Nat) (s s' : Slice)
    (hk : a.slices[k]? = some (some s)) (e : Extends h h' [s.arr]) (newv : List Cell)
    (hr : read h' s' = newv) :
    (a.slices.set k (some s')).map (Option.map (read h'))
      = ((a.slices.map (Option.map (read h))).set k (some newv)) := by
  apply List.ext_getElem?
  intro j
  simp only [List.getElem?_map, List.getElem?_set, List.length_map]
  by_cases hjk : k = j
  · subst hjk
    have hlt : k < a.slices.length := by
      rcases List.getElem?_eq_some_iff.1 hk with ⟨hlt, _⟩; exact hlt
    simp [hlt, hr]
  · simp only [hjk, if_false]
    cases hj : a.slices[j]? with
    | none => rfl
    | some ot =>
      cases ot with
      | none => rfl
      | some t =>
        simp only [Option.map_some, Option.some.injEq]
        apply read_congr
        have hne : t.arr ≠ s.arr := wa.nodup j k t s (Ne.symm hjk) hj hk
        exact e.keep _ (wa.wf t (mem_of_getElem? hj)).inb (by simpa using hne)

/-- Reads of the untouched slices after slice `k` moved to a fresh array. -/
theorem abs_set_alloc (h : Heap) (a : ObjH) (wa : ObjWF h a) (k : Nat) (vs : List Cell) (cap : Nat)
    (hk : k < a.slices.length) :
    (a.slices.set k (some (alloc h vs cap).2)).map (Option.map (read (alloc h vs cap).1))
      = ((a.slices.map (Option.map (read h))).set k (some vs)) := by
  apply List.ext_getElem?
  intro j
  simp only [List.getElem?_map, List.getElem?_set, List.length_map]
  by_cases hjk : k = j
  · subst hjk; simp [hk, read_alloc_new]
  · simp only [hjk, if_false]
    cases hj : a.slices[j]? with
    | none => rfl
    | some ot =>
      cases ot with
      | none => rfl
      | some t =>
        simp only [Option.map_some, Option.some.injEq]
        exact read_alloc_old h vs cap t (wa.wf t (mem_of_getElem? hj)).inb

theorem mem_set_some {l : List (Option Slice)} {k : Nat} {x t : Slice}
    (h : some t ∈ l.set k (some x)) : t = x ∨ some t ∈ l := by
  rcases List.mem_or_eq_of_mem_set h with h | h
  · exact Or.inr h
  · exact Or.inl (by simpa using h)

theorem getElem?_set_some {l : List (Option Slice)} {k j : Nat} {x : Option Slice} {t : Slice}
    (h : (l.set k x)[j]? = some (some t)) : (j = k ∧ x = some t) ∨ (j ≠ k ∧ l[j]? = some (some t)) := by
  rw [List.getElem?_set] at h
  by_cases e : k = j
  · subst e
    simp only [if_true] at h
    split at h
    · left; exact ⟨rfl, by simpa using h⟩
    · simp at h
  · simp only [e, if_false] at h
    right; exact ⟨Ne.symm e, h⟩

theorem set_self {β} (l : List β) (k : Nat) (x : β) (h : l[k]? = some x) : l.set k x = l := by
  apply List.ext_getElem?
  intro j
  rw [List.getElem?_set]
  by_cases e : k = j
  · subst e
    rcases List.getElem?_eq_some_iff.1 h with ⟨hlt, hx⟩
    simp [hlt, hx]
  · simp [e]

theorem Extends.widen {h h' : Heap} {M M' : List Nat} (e : Extends h h' M)
    (hsub : ∀ x ∈ M, x ∈ M') : Extends h h' M' :=
  ⟨e.len, fun i hi hn => e.keep i hi (fun hm => hn (hsub i hm)), e.size⟩

theorem read_length (h : Heap) (s : Slice) (w : WFSlice h s) : (read h s).length = s.len := by
  unfold read
  simp only [List.length_take, List.length_drop]
  have := w.fits; have := w.lencap; omega

theorem arr_mem_arrays {a : ObjH} {k : Nat} {s : Slice} (hk : a.slices[k]? = some (some s)) :
    s.arr ∈ arrays a := mem_arrays.2 ⟨s, mem_of_getElem? hk, rfl⟩

/-- What one successful heap step guarantees. -/
structure StepOK (h : Heap) (a : ObjH) (op : GOp) (h' : Heap) (a' : ObjH) : Prop where
  ext : Extends h h' (arrays a)
  wf : ObjWF h' a'
  fresh : ∀ s', some s' ∈ a'.slices → s'.arr ∈ arrays a ∨ h.length ≤ s'.arr
  sim : stepV (absObj h a) op = .ok (absObj h' a')

theorem getElem?_abs (h : Heap) (a : ObjH) (k : Nat) :
    (absObj h a).slices[k]? = (a.slices[k]?).map (Option.map (read h)) := by
  simp [absObj]

theorem stepH_wr (grow : Nat → Nat → Nat) (h : Heap) (a : ObjH) (wa : ObjWF h a) (k i : Nat)
    (v : Cell) (h' : Heap) (a' : ObjH) (hs : stepH grow h a (.wr k i v) = .ok (h', a')) :
    StepOK h a (.wr k i v) h' a' := by
  simp only [stepH] at hs
  cases hk : a.slices[k]? with
  | none => simp [hk] at hs
  | some os =>
    cases os with
    | none => simp [hk] at hs
    | some s =>
      simp only [hk] at hs
      by_cases hi : i < s.len
      · simp only [hi, if_true, Outcome.ok.injEq, Prod.mk.injEq] at hs
        obtain ⟨rfl, rfl⟩ := hs
        have ws := wa.wf s (mem_of_getElem? hk)
        have e1 := extends_setArr h s.arr (writeAt (h.getD s.arr []) (s.off + i) [v]) ws.inb
          (writeAt_length _ _ _)
        have e := e1.widen (M' := arrays a) (by
          intro x hx; simp at hx; subst hx; exact arr_mem_arrays hk)
        refine ⟨e, wa.mono e, fun s' hs' => Or.inl (mem_arrays.2 ⟨s', hs', rfl⟩), ?_⟩
        have hfit : s.off + s.len ≤ (h.getD s.arr []).length := by
          have := ws.fits; have := ws.lencap; omega
        have hr := read_wr h s i v hi ws.inb hfit
        have habs := abs_set_inplace h _ a wa k s s hk e1 _ hr
        rw [set_self _ _ _ hk] at habs
        simp only [stepV, getElem?_abs, hk, Option.map_some, read_length h s ws, hi, if_true]
        simp only [absObj, habs]
      · simp [hi] at hs

theorem stepH_wrAll (grow : Nat → Nat → Nat) (h : Heap) (a : ObjH) (wa : ObjWF h a) (k : Nat)
    (vs : List Cell) (h' : Heap) (a' : ObjH) (hs : stepH grow h a (.wrAll k vs) = .ok (h', a')) :
    StepOK h a (.wrAll k vs) h' a' := by
  simp only [stepH] at hs
  cases hk : a.slices[k]? with
  | none => simp [hk] at hs
  | some os =>
    cases os with
    | none =>
      simp only [hk] at hs
      by_cases hl : vs.length = 0
      · simp only [hl, if_true, Outcome.ok.injEq, Prod.mk.injEq] at hs
        obtain ⟨rfl, rfl⟩ := hs
        have e : Extends h h (arrays a) := ⟨Nat.le_refl _, fun _ _ _ => rfl, fun _ _ => rfl⟩
        refine ⟨e, wa, fun s' hs' => Or.inl (mem_arrays.2 ⟨s', hs', rfl⟩), ?_⟩
        simp [stepV, getElem?_abs, hk, hl]
      · simp [hl] at hs
    | some s =>
      simp only [hk] at hs
      by_cases hl : vs.length = s.len
      · simp only [hl, if_true, Outcome.ok.injEq, Prod.mk.injEq] at hs
        obtain ⟨rfl, rfl⟩ := hs
        have ws := wa.wf s (mem_of_getElem? hk)
        have e1 := extends_setArr h s.arr (writeAt (h.getD s.arr []) s.off vs) ws.inb
          (writeAt_length _ _ _)
        have e := e1.widen (M' := arrays a) (by
          intro x hx; simp at hx; subst hx; exact arr_mem_arrays hk)
        refine ⟨e, wa.mono e, fun s' hs' => Or.inl (mem_arrays.2 ⟨s', hs', rfl⟩), ?_⟩
        have hfit : s.off + s.len ≤ (h.getD s.arr []).length := by
          have := ws.fits; have := ws.lencap; omega
        have hr := read_wrAll h s vs hl ws.inb hfit
        have habs := abs_set_inplace h _ a wa k s s hk e1 _ hr
        rw [set_self _ _ _ hk] at habs
        simp only [stepV, getElem?_abs, hk, Option.map_some, read_length h s ws, hl, if_true]
        simp only [absObj, habs]
      · simp [hl] at hs

theorem lt_length_of_getElem? {β} {l : List β} {k : Nat} {x : β} (h : l[k]? = some x) :
    k < l.length := (List.getElem?_eq_some_iff.1 h).1

/-- Replacing slice `k` by a slice in a brand-new array keeps the object well formed. -/
theorem wf_set_alloc (h : Heap) (a : ObjH) (wa : ObjWF h a) (k : Nat) (vs : List Cell) (cap : Nat) :
    ObjWF (alloc h vs cap).1 ⟨a.scalars, a.slices.set k (some (alloc h vs cap).2)⟩ where
  wf := by
    intro t ht
    rcases mem_set_some ht with rfl | ht
    · exact wf_alloc h vs cap
    · exact (wa.wf t ht).mono (extends_alloc h vs cap)
  nodup := by
    intro j k' t s' hne hj hk'
    rcases getElem?_set_some hj with ⟨hjk, hx⟩ | ⟨hjk, hj2⟩
    · rcases getElem?_set_some hk' with ⟨hk'k, _⟩ | ⟨_, hk2⟩
      · exact absurd (hjk.trans hk'k.symm) hne
      · have : t = (alloc h vs cap).2 := by simpa using hx.symm
        subst this
        have := (wa.wf s' (mem_of_getElem? hk2)).inb
        simp only [alloc]; omega
    · rcases getElem?_set_some hk' with ⟨_, hx⟩ | ⟨_, hk2⟩
      · have : s' = (alloc h vs cap).2 := by simpa using hx.symm
        subst this
        have := (wa.wf t (mem_of_getElem? hj2)).inb
        simp only [alloc]; omega
      · exact wa.nodup j k' t s' hne hj2 hk2

theorem stepOK_alloc (h : Heap) (a : ObjH) (wa : ObjWF h a) (k : Nat) (vs : List Cell) (cap : Nat)
    (hk : k < a.slices.length) (op : GOp)
    (hv : stepV (absObj h a) op
      = .ok ⟨a.scalars, (a.slices.map (Option.map (read h))).set k (some vs)⟩) :
    StepOK h a op (alloc h vs cap).1 ⟨a.scalars, a.slices.set k (some (alloc h vs cap).2)⟩ where
  ext := extends_refl_of_empty (extends_alloc h vs cap) _
  wf := wf_set_alloc h a wa k vs cap
  fresh := by
    intro t ht
    rcases mem_set_some ht with rfl | ht
    · right; simp [alloc]
    · left; exact mem_arrays.2 ⟨t, ht, rfl⟩
  sim := by
    rw [hv]; simp only [absObj, abs_set_alloc h a wa k vs cap hk]

theorem stepH_app (grow : Nat → Nat → Nat) (h : Heap) (a : ObjH) (wa : ObjWF h a) (k : Nat)
    (vs : List Cell) (h' : Heap) (a' : ObjH) (hs : stepH grow h a (.app k vs) = .ok (h', a')) :
    StepOK h a (.app k vs) h' a' := by
  simp only [stepH] at hs
  cases hk : a.slices[k]? with
  | none => simp [hk] at hs
  | some os =>
    have hklt := lt_length_of_getElem? hk
    cases os with
    | none =>
      simp only [hk] at hs
      by_cases he : vs.isEmpty
      · simp only [he, if_true, Outcome.ok.injEq, Prod.mk.injEq] at hs
        obtain ⟨rfl, rfl⟩ := hs
        have e : Extends h h (arrays a) := ⟨Nat.le_refl _, fun _ _ _ => rfl, fun _ _ => rfl⟩
        refine ⟨e, wa, fun s' hs' => Or.inl (mem_arrays.2 ⟨s', hs', rfl⟩), ?_⟩
        simp [stepV, getElem?_abs, hk, he]
      · simp only [he, Bool.false_eq_true, if_false, Outcome.ok.injEq, Prod.mk.injEq] at hs
        obtain ⟨rfl, rfl⟩ := hs
        apply stepOK_alloc h a wa k vs _ hklt
        simp [stepV, getElem?_abs, hk, he, absObj]
    | some s =>
      simp only [hk] at hs
      have ws := wa.wf s (mem_of_getElem? hk)
      by_cases hc : s.len + vs.length ≤ s.cap
      · simp only [hc, if_true, Outcome.ok.injEq, Prod.mk.injEq] at hs
        obtain ⟨rfl, rfl⟩ := hs
        have e1 := extends_setArr h s.arr (writeAt (h.getD s.arr []) (s.off + s.len) vs) ws.inb
          (writeAt_length _ _ _)
        have e := e1.widen (M' := arrays a) (by
          intro x hx; simp at hx; subst hx; exact arr_mem_arrays hk)
        have hfit : s.off + s.len + vs.length ≤ (h.getD s.arr []).length := by
          have := ws.fits; omega
        refine ⟨e, ⟨?_, ?_⟩, ?_, ?_⟩
        · intro t ht
          rcases mem_set_some ht with rfl | ht
          · exact ⟨by rw [setArr_length]; exact ws.inb, hc, by
              rw [getD_setArr_eq _ _ _ ws.inb, writeAt_length]; exact ws.fits⟩
          · exact (wa.wf t ht).mono e
        · intro j k' t s' hne hj hk'
          rcases getElem?_set_some hj with ⟨hjk, hx⟩ | ⟨hjk, hj2⟩
          · rcases getElem?_set_some hk' with ⟨hk'k, _⟩ | ⟨hk'k, hk2⟩
            · exact absurd (hjk.trans hk'k.symm) hne
            · have : t = { s with len := s.len + vs.length } := by simpa using hx.symm
              subst this
              exact wa.nodup k k' s s' (Ne.symm hk'k) hk hk2
          · rcases getElem?_set_some hk' with ⟨hk'k, hx⟩ | ⟨_, hk2⟩
            · have : s' = { s with len := s.len + vs.length } := by simpa using hx.symm
              subst this
              exact wa.nodup j k t s hjk hj2 hk
            · exact wa.nodup j k' t s' hne hj2 hk2
        · intro t ht
          left
          rcases mem_set_some ht with ht | ht
          · subst ht; exact arr_mem_arrays (s := s) hk
          · exact mem_arrays.2 ⟨t, ht, rfl⟩
        · have hr := read_app h s vs ws.inb hfit
          have habs := abs_set_inplace h _ a wa k s _ hk e1 _ hr
          simp only [stepV, getElem?_abs, hk, Option.map_some]
          simp only [absObj, habs]
      · simp only [hc, if_false, Outcome.ok.injEq, Prod.mk.injEq] at hs
        obtain ⟨rfl, rfl⟩ := hs
        apply stepOK_alloc h a wa k _ _ hklt
        simp [stepV, getElem?_abs, hk, absObj]

theorem stepH_setFresh (grow : Nat → Nat → Nat) (h : Heap) (a : ObjH) (wa : ObjWF h a) (k : Nat)
    (vs : Option (List Cell)) (h' : Heap) (a' : ObjH)
    (hs : stepH grow h a (.setFresh k vs) = .ok (h', a')) :
    StepOK h a (.setFresh k vs) h' a' := by
  simp only [stepH] at hs
  by_cases hk : k < a.slices.length
  · simp only [hk, if_true] at hs
    cases vs with
    | none =>
      simp only [Outcome.ok.injEq, Prod.mk.injEq] at hs
      obtain ⟨rfl, rfl⟩ := hs
      have e : Extends h h (arrays a) := ⟨Nat.le_refl _, fun _ _ _ => rfl, fun _ _ => rfl⟩
      refine ⟨e, ⟨?_, ?_⟩, ?_, ?_⟩
      · intro t ht
        rcases List.mem_or_eq_of_mem_set ht with ht | ht
        · exact wa.wf t ht
        · simp at ht
      · intro j k' t s' hne hj hk'
        rcases getElem?_set_some hj with ⟨_, hx⟩ | ⟨_, hj⟩
        · simp at hx
        · rcases getElem?_set_some hk' with ⟨_, hx⟩ | ⟨_, hk'⟩
          · simp at hx
          · exact wa.nodup j k' t s' hne hj hk'
      · intro t ht
        left
        rcases List.mem_or_eq_of_mem_set ht with ht | ht
        · exact mem_arrays.2 ⟨t, ht, rfl⟩
        · simp at ht
      · simp only [stepV, absObj, List.length_map, hk, if_true, List.map_set, Option.map_none]
    | some vs =>
      simp only [Outcome.ok.injEq, Prod.mk.injEq] at hs
      obtain ⟨rfl, rfl⟩ := hs
      apply stepOK_alloc h a wa k vs _ hk
      simp [stepV, absObj, hk]
  · simp [hk] at hs

theorem stepH_addSlice (grow : Nat → Nat → Nat) (h : Heap) (a : ObjH) (wa : ObjWF h a)
    (vs : Option (List Cell)) (h' : Heap) (a' : ObjH)
    (hs : stepH grow h a (.addSlice vs) = .ok (h', a')) :
    StepOK h a (.addSlice vs) h' a' := by
  simp only [stepH] at hs
  cases vs with
  | none =>
    simp only [Outcome.ok.injEq, Prod.mk.injEq] at hs
    obtain ⟨rfl, rfl⟩ := hs
    have e : Extends h h (arrays a) := ⟨Nat.le_refl _, fun _ _ _ => rfl, fun _ _ => rfl⟩
    refine ⟨e, ⟨?_, ?_⟩, ?_, ?_⟩
    · intro t ht
      simp only [List.mem_append, List.mem_singleton, reduceCtorEq, or_false] at ht
      exact wa.wf t ht
    · intro j k' t s' hne hj hk'
      have hj' : a.slices[j]? = some (some t) := by
        rw [List.getElem?_append] at hj
        split at hj
        · exact hj
        · rcases List.getElem?_eq_some_iff.1 hj with ⟨_, hx⟩
          simp at hx
      have hk'' : a.slices[k']? = some (some s') := by
        rw [List.getElem?_append] at hk'
        split at hk'
        · exact hk'
        · rcases List.getElem?_eq_some_iff.1 hk' with ⟨_, hx⟩
          simp at hx
      exact wa.nodup j k' t s' hne hj' hk''
    · intro t ht
      simp only [List.mem_append, List.mem_singleton, reduceCtorEq, or_false] at ht
      exact Or.inl (mem_arrays.2 ⟨t, ht, rfl⟩)
    · simp [stepV, absObj]
  | some vs =>
    simp only [Outcome.ok.injEq, Prod.mk.injEq] at hs
    obtain ⟨rfl, rfl⟩ := hs
    have ea := extends_alloc h vs vs.length
    refine ⟨extends_refl_of_empty ea _, ⟨?_, ?_⟩, ?_, ?_⟩
    · intro t ht
      simp only [List.mem_append, List.mem_singleton, Option.some.injEq] at ht
      rcases ht with ht | rfl
      · exact (wa.wf t ht).mono ea
      · exact wf_alloc h vs vs.length
    · intro j k' t s' hne hj hk'
      rw [List.getElem?_append] at hj hk'
      split at hj
      · split at hk'
        · exact wa.nodup j k' t s' hne hj hk'
        · rcases List.getElem?_eq_some_iff.1 hk' with ⟨_, hx⟩
          have hx : (alloc h vs vs.length).2 = s' := by simpa using hx
          subst hx
          have := (wa.wf t (mem_of_getElem? hj)).inb
          simp only [alloc]; omega
      · rcases List.getElem?_eq_some_iff.1 hj with ⟨hjl, hx⟩
        have hx : (alloc h vs vs.length).2 = t := by simpa using hx
        subst hx
        split at hk'
        · have := (wa.wf s' (mem_of_getElem? hk')).inb
          simp only [alloc]; omega
        · rcases List.getElem?_eq_some_iff.1 hk' with ⟨hkl, _⟩
          simp only [List.length_singleton] at hjl hkl
          omega
    · intro t ht
      simp only [List.mem_append, List.mem_singleton, Option.some.injEq] at ht
      rcases ht with ht | rfl
      · exact Or.inl (mem_arrays.2 ⟨t, ht, rfl⟩)
      · right; simp [alloc]
    · simp only [stepV, absObj, List.map_append, List.map_cons, List.map_nil, Option.map_some,
        read_alloc_new]
      congr 2
      congr 1
      apply List.map_congr_left
      intro ot hot
      cases ot with
      | none => rfl
      | some t =>
        simp only [Option.map_some, Option.some.injEq]
        exact (read_alloc_old h vs vs.length t (wa.wf t hot).inb).symm

theorem stepH_ok (grow : Nat → Nat → Nat) (h : Heap) (a : ObjH) (wa : ObjWF h a) (op : GOp)
    (h' : Heap) (a' : ObjH) (hs : stepH grow h a op = .ok (h', a')) : StepOK h a op h' a' := by
  cases op with
  | wr k i v => exact stepH_wr grow h a wa k i v h' a' hs
  | wrAll k vs => exact stepH_wrAll grow h a wa k vs h' a' hs
  | app k vs => exact stepH_app grow h a wa k vs h' a' hs
  | setFresh k vs => exact stepH_setFresh grow h a wa k vs h' a' hs
  | addSlice vs => exact stepH_addSlice grow h a wa vs h' a' hs

/-- A failing heap step fails in the value semantics too (so the two runs stay in step). -/
theorem stepH_fail (grow : Nat → Nat → Nat) (h : Heap) (a : ObjH) (wa : ObjWF h a) (op : GOp)
    (hf : (stepH grow h a op).isOk = false) : (stepV (absObj h a) op).isOk = false := by
  cases op with
  | wr k i v =>
    simp only [stepH, stepV, getElem?_abs] at hf ⊢
    cases hk : a.slices[k]? with
    | none => simp [Outcome.isOk]
    | some os =>
      cases os with
      | none => simp [Outcome.isOk]
      | some s =>
        have ws := wa.wf s (mem_of_getElem? hk)
        simp only [hk, Option.map_some, read_length h s ws] at hf ⊢
        by_cases hi : i < s.len
        · simp [hi, Outcome.isOk] at hf
        · simp [hi, Outcome.isOk]
  | wrAll k vs =>
    simp only [stepH, stepV, getElem?_abs] at hf ⊢
    cases hk : a.slices[k]? with
    | none => simp [Outcome.isOk]
    | some os =>
      cases os with
      | none =>
        simp only [hk, Option.map_some, Option.map_none] at hf ⊢
        by_cases hl : vs.length = 0
        · simp [hl, Outcome.isOk] at hf
        · simp [hl, Outcome.isOk]
      | some s =>
        have ws := wa.wf s (mem_of_getElem? hk)
        simp only [hk, Option.map_some, read_length h s ws] at hf ⊢
        by_cases hl : vs.length = s.len
        · simp [hl, Outcome.isOk] at hf
        · simp [hl, Outcome.isOk]
  | app k vs =>
    simp only [stepH, stepV, getElem?_abs] at hf ⊢
    cases hk : a.slices[k]? with
    | none => simp [Outcome.isOk]
    | some os =>
      cases os with
      | none =>
        simp only [hk] at hf
        by_cases he : vs.isEmpty <;> simp [he, Outcome.isOk] at hf
      | some s =>
        simp only [hk] at hf
        by_cases hc : s.len + vs.length ≤ s.cap <;> simp [hc, Outcome.isOk] at hf
  | setFresh k vs =>
    simp only [stepH, stepV, absObj, List.length_map] at hf ⊢
    by_cases hk : k < a.slices.length
    · cases vs <;> simp [hk, Outcome.isOk] at hf
    · simp [hk, Outcome.isOk]
  | addSlice vs =>
    simp only [stepH] at hf
    cases vs <;> simp [Outcome.isOk] at hf

/-! ## Clone -/

theorem cloneSlices_spec (h0 : Heap) (ss : List (Option Slice)) :
    ∀ (h : Heap), Extends h0 h [] → (∀ s, some s ∈ ss → WFSlice h0 s) →
      Extends h0 (cloneSlices h ss).1 [] ∧
      (cloneSlices h ss).2.map (Option.map (read (cloneSlices h ss).1))
        = ss.map (Option.map (read h0)) ∧
      (∀ s', some s' ∈ (cloneSlices h ss).2 →
          WFSlice (cloneSlices h ss).1 s' ∧ h.length ≤ s'.arr) ∧
      (∀ (j k : Nat) (t s : Slice), j ≠ k → (cloneSlices h ss).2[j]? = some (some t) →
          (cloneSlices h ss).2[k]? = some (some s) → t.arr ≠ s.arr) ∧
      h.length ≤ (cloneSlices h ss).1.length := by
  induction ss with
  | nil =>
    intro h e _
    exact ⟨e, rfl, by simp [cloneSlices], by simp [cloneSlices], Nat.le_refl _⟩
  | cons os rest ih =>
    intro h e hwf
    cases os with
    | none =>
      have hrest : ∀ s, some s ∈ rest → WFSlice h0 s := fun s hs => hwf s (by simp [hs])
      obtain ⟨e', hr, hw, hn, hl⟩ := ih h e hrest
      simp only [cloneSlices]
      refine ⟨e', by simp [hr], ?_, ?_, hl⟩
      · intro s' hs'
        simp only [List.mem_cons, reduceCtorEq, false_or] at hs'
        exact hw s' hs'
      · intro j k t s hne hj hk
        cases j with
        | zero => simp at hj
        | succ j =>
          cases k with
          | zero => simp at hk
          | succ k =>
            simp only [List.getElem?_cons_succ] at hj hk
            exact hn j k t s (by omega) hj hk
    | some s =>
      have ws : WFSlice h0 s := hwf s (by simp)
      have hrest : ∀ s, some s ∈ rest → WFSlice h0 s := fun s hs => hwf s (by simp [hs])
      have ea := extends_alloc h (read h s) s.len
      have e1 : Extends h0 (alloc h (read h s) s.len).1 [] :=
        ⟨Nat.le_trans e.len ea.len,
         fun i hi hn => by
           rw [ea.keep i (Nat.lt_of_lt_of_le hi e.len) (by simp), e.keep i hi hn],
         fun i hi => by
           rw [ea.size i (Nat.lt_of_lt_of_le hi e.len), e.size i hi]⟩
      obtain ⟨e', hr, hw, hn, hl⟩ := ih (alloc h (read h s) s.len).1 e1 hrest
      simp only [cloneSlices]
      have hl1 : (alloc h (read h s) s.len).1.length = h.length + 1 := by simp [alloc]
      have hnew : (alloc h (read h s) s.len).2.arr = h.length := rfl
      have hreads : read h s = read h0 s := read_congr _ _ _ (e.keep _ ws.inb (by simp))
      refine ⟨e', ?_, ?_, ?_, by omega⟩
      · simp only [List.map_cons, Option.map_some, hr, List.cons.injEq, Option.some.injEq,
          and_true]
        -- the freshly allocated slice still reads the copied contents in the final heap
        have e2 : Extends (alloc h (read h s) s.len).1
            (cloneSlices (alloc h (read h s) s.len).1 rest).1 [] := by
          have := (cloneSlices_spec_aux (alloc h (read h s) s.len).1 rest)
          exact this
        rw [read_congr _ _ _ (e2.keep _ (by rw [hl1, hnew]; omega) (by simp)), read_alloc_new,
          hreads]
      · intro s' hs'
        simp only [List.mem_cons, Option.some.injEq] at hs'
        rcases hs' with rfl | hs'
        · have e2 : Extends (alloc h (read h s) s.len).1
              (cloneSlices (alloc h (read h s) s.len).1 rest).1 [] :=
            cloneSlices_spec_aux _ rest
          exact ⟨(wf_alloc h (read h s) s.len).mono e2, by rw [hnew]; exact Nat.le_refl _⟩
        · have := hw s' hs'
          exact ⟨this.1, by omega⟩
      · intro j k t s2 hne hj hk
        cases j with
        | zero =>
          cases k with
          | zero => exact absurd rfl hne
          | succ k =>
            simp only [List.getElem?_cons_zero, Option.some.injEq, List.getElem?_cons_succ] at hj hk
            subst hj
            have := (hw s2 (mem_of_getElem? hk)).2
            rw [hnew]; omega
        | succ j =>
          cases k with
          | zero =>
            simp only [List.getElem?_cons_zero, Option.some.injEq, List.getElem?_cons_succ] at hj hk
            subst hk
            have := (hw t (mem_of_getElem? hj)).2
            rw [hnew]; omega
          | succ k =>
            simp only [List.getElem?_cons_succ] at hj hk
            exact hn j k t s2 (by omega) hj hk
where
  cloneSlices_spec_aux (h : Heap) (ss : List (Option Slice)) : Extends h (cloneSlices h ss).1 [] := by
    induction ss generalizing h with
    | nil => exact ⟨Nat.le_refl _, fun _ _ _ => rfl, fun _ _ => rfl⟩
    | cons os rest ih =>
      cases os with
      | none => simpa [cloneSlices] using ih h
      | some s =>
        simp only [cloneSlices]
        have ea := extends_alloc h (read h s) s.len
        have e2 := ih (alloc h (read h s) s.len).1
        exact ⟨Nat.le_trans ea.len e2.len,
          fun i hi hn => by
            rw [e2.keep i (Nat.lt_of_lt_of_le hi ea.len) (by simp), ea.keep i hi hn],
          fun i hi => by
            rw [e2.size i (Nat.lt_of_lt_of_le hi ea.len), ea.size i hi]⟩

end GeomVerif.Heap
