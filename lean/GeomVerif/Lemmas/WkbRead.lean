/-
Reader-side lemmas for C03: the float and count readers invert the writers, in both byte
orders, leaving exactly the rest of the stream.
-/
import GeomVerif.Lemmas.Wkb

namespace GeomVerif.Wkb
open GeomVerif GeomVerif.WkbSpec

theorem natOfLE_digits (n : Nat) (k : Nat) : ∀ s : Nat,
    natOfLE ((List.range' s k).map fun i => UInt8.ofNat (n / 256 ^ i % 256)) = n / 256 ^ s % 256 ^ k := by
  induction k with
  | zero => intro s; simp [natOfLE, Nat.mod_one]
  | succ k ih =>
    intro s
    simp only [List.range'_succ, List.map_cons, natOfLE,
      ofNat_toNat _ (Nat.mod_lt _ (by decide : 0 < 256)), ih (s + 1)]
    have h1 : n / 256 ^ (s + 1) = n / 256 ^ s / 256 := by
      rw [Nat.pow_succ, Nat.div_div_eq_div_mul]
    rw [h1, Nat.pow_succ, Nat.mul_comm (256 ^ k) 256, Nat.mod_mul]

theorem natOfLE_u64 (n : Nat) :
    natOfLE ((List.range 8).map fun i => UInt8.ofNat (n / 256 ^ i % 256)) = n % 18446744073709551616 := by
  rw [List.range_eq_range', natOfLE_digits n 8 0]
  simp

theorem u64Bytes_length (ndr : Bool) (v : Ord) : (u64Bytes ndr v).length = 8 := by
  unfold u64Bytes; cases ndr <;> simp

/-- Decoding the eight bytes written for a float gives back its bit pattern. -/
theorem u64_roundtrip (ndr : Bool) (v : Ord) :
    UInt64.ofNat (natOfLE (if ndr then u64Bytes ndr v else (u64Bytes ndr v).reverse)) = v := by
  have h : natOfLE (if ndr then u64Bytes ndr v else (u64Bytes ndr v).reverse)
      = v.toNat % 18446744073709551616 := by
    unfold u64Bytes
    cases ndr <;> simp only [if_true, if_false, Bool.false_eq_true, List.reverse_reverse, natOfLE_u64]
  rw [h, Nat.mod_eq_of_lt (by have := v.toNat_lt; omega)]
  exact UInt64.ofNat_toNat

theorem writeFloats_cons (ndr : Bool) (f : Ord) (fs : List Ord) :
    writeFloats ndr (f :: fs) = u64Bytes ndr f ++ writeFloats ndr fs := by
  simp [writeFloats]

theorem writeFloats_length (ndr : Bool) (fs : List Ord) : (writeFloats ndr fs).length = 8 * fs.length := by
  induction fs with
  | nil => rfl
  | cons f fs ih => rw [writeFloats_cons, List.length_append, u64Bytes_length, ih, List.length_cons]; omega

theorem chunk8_writeFloats (ndr : Bool) (fs : List Ord) :
    (chunk8 fs.length (writeFloats ndr fs)).map
      (fun c => UInt64.ofNat (natOfLE (if ndr then c else c.reverse))) = fs := by
  induction fs with
  | nil => rfl
  | cons f fs ih =>
    rw [writeFloats_cons]
    simp only [List.length_cons, chunk8, List.map_cons]
    have h8 := u64Bytes_length ndr f
    rw [show (u64Bytes ndr f ++ writeFloats ndr fs).take 8 = u64Bytes ndr f by
          rw [← h8, List.take_left],
        show (u64Bytes ndr f ++ writeFloats ndr fs).drop 8 = writeFloats ndr fs by
          rw [← h8, List.drop_left], ih, u64_roundtrip]

/-- ReadFloatArray inverts WriteFloatArray and leaves the rest of the stream. -/
theorem readFloats_writeFloats (ndr : Bool) (fs : List Ord) (rest : List Byte) :
    readFloats ndr fs.length (writeFloats ndr fs ++ rest) = .ok (fs, rest) := by
  unfold readFloats
  rw [readFull_append _ _ rest (writeFloats_length ndr fs)]
  simp only [Outcome.bind_ok, chunk8_writeFloats]

/-- ReadFlatCoords1 inverts WriteFlatCoords1 (count + ordinates), with limits disabled or not
exceeded, and accounts for exactly the coordinates it allocated. -/
theorem readFlatCoords1_written (lim : Limits) (ndr : Bool) (stride k : Nat) (flat : List Ord)
    (rest : List Byte) (a : Nat) (hk : k < 4294967296) (hlen : flat.length = k * stride)
    (hlim : exceeds lim.l1 k = false) :
    readFlatCoords1 lim ndr stride ⟨u32Bytes ndr k ++ (writeFloats ndr flat ++ rest), a⟩
      = .ok (flat, ⟨rest, a + 2 * (k * stride)⟩) := by
  unfold readFlatCoords1
  simp only [readU32_u32Bytes, Nat.mod_eq_of_lt hk, Outcome.bind_ok, hlim, Bool.false_eq_true,
    if_false]
  rw [← hlen, readFloats_writeFloats]
  simp only [Outcome.bind_ok]

theorem readByte_cons (b : Byte) (bs : List Byte) : readByte (b :: bs) = .ok (b, bs) := by
  simp [readByte, readFull, Outcome.bind_ok]

theorem wCoords_eq (ndr : Bool) (cs : List (List Ord)) :
    wCoords ndr cs = u32Bytes ndr cs.length ++ writeFloats ndr cs.flatten := by
  rw [wCoords, writeFloats_flatten, u32Bytes_eq_w32]

/-- The ring reader inverts the ring writer, threading offsets exactly as `endsOf` does. -/
theorem readRings_written (ndr : Bool) (stride : Nat) (rings : List (List (List Ord)))
    (hall : ∀ c ∈ rings.flatten, c.length = stride) (hn : ∀ r ∈ rings, r.length < 4294967296)
    (rest : List Byte) : ∀ (flat : List Ord) (ends : List Nat) (a : Nat),
    readRings {} ndr stride rings.length flat ends ⟨(rings.map (wCoords ndr)).flatten ++ rest, a⟩
      = .ok (flat ++ rings.flatten.flatten, ends ++ endsOf flat.length rings,
          ⟨rest, a + 2 * (rings.flatten.length * stride)⟩) := by
  induction rings with
  | nil => intro flat ends a; simp [readRings, endsOf]
  | cons r rs ih =>
    intro flat ends a
    have hr : ∀ c ∈ r, c.length = stride := fun c hc => hall c (by simp [hc])
    have hrs : ∀ c ∈ rs.flatten, c.length = stride := fun c hc => hall c (by
      simp only [List.flatten_cons, List.mem_append]; exact Or.inr hc)
    have hflat : r.flatten.length = r.length * stride := flatten_length_of_all r stride hr
    have hrd := readFlatCoords1_written {} ndr stride r.length r.flatten
      ((rs.map (wCoords ndr)).flatten ++ rest) a (hn r (by simp)) hflat rfl
    simp only [List.length_cons, readRings, List.map_cons, List.flatten_cons, wCoords_eq,
      List.append_assoc, hrd, Outcome.bind_ok]
    rw [ih hrs (fun r' h' => hn r' (by simp [h'])) (flat ++ r.flatten)
      (ends ++ [(flat ++ r.flatten).length]) (a + 2 * (r.length * stride))]
    simp only [endsOf, List.length_append, List.append_assoc, List.singleton_append,
      List.flatten_append, Outcome.ok.injEq, Prod.mk.injEq, true_and, RS.mk.injEq]
    rw [Nat.add_mul]; omega

end GeomVerif.Wkb
