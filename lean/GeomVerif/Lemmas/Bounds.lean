/-
Helper lemmas for C08: the extend loop as a fold of coordinate-wise min / max.
-/
import GeomVerif.Lemmas.Multi
import GeomVerif.Spec.C08

namespace GeomVerif
variable {α : Type}

/-- Coordinate-wise update of the first `c.length` slots. -/
def zipPrefix (f : α → α → α) : List α → List α → List α
  | acc, [] => acc
  | [], _ :: _ => []
  | a :: acc, c :: cs => f a c :: zipPrefix f acc cs

theorem updInto_eq (f : α → α → α) (acc c : List α) (h : c.length ≤ acc.length) :
    updInto f acc c = .ok (zipPrefix f acc c) := by
  induction c generalizing acc with
  | nil => cases acc <;> rfl
  | cons x xs ih =>
    cases acc with
    | nil => simp at h
    | cons a acc =>
      simp only [List.length_cons, Nat.add_le_add_iff_right] at h
      simp [updInto, ih acc h, zipPrefix]

theorem zipPrefix_length (f : α → α → α) (acc c : List α) (h : c.length ≤ acc.length) :
    (zipPrefix f acc c).length = acc.length := by
  induction c generalizing acc with
  | nil => cases acc <;> rfl
  | cons x xs ih =>
    cases acc with
    | nil => simp at h
    | cons a acc =>
      simp only [List.length_cons, Nat.add_le_add_iff_right] at h
      simp [zipPrefix, ih acc h]

/-- The extend loop over whole coordinates is a left fold of `zipPrefix`. -/
theorem extendLoop_eq (o : OrdOps α) (s : Nat) (cs : List (List α)) (rest mn mx : List α)
    (hall : ∀ c ∈ cs, c.length = s) (hmn : s ≤ mn.length) (hmx : s ≤ mx.length) :
    extendLoop o s cs.length (cs.flatten ++ rest) mn mx =
      .ok (cs.foldl (zipPrefix o.min) mn, cs.foldl (zipPrefix o.max) mx) := by
  induction cs generalizing mn mx with
  | nil => rfl
  | cons c cs ih =>
    have hc : c.length = s := hall c (by simp)
    have hrest : ∀ c' ∈ cs, c'.length = s := fun c' hc' => hall c' (by simp [hc'])
    simp only [List.length_cons, extendLoop, List.flatten_cons, List.append_assoc,
      List.length_append, List.foldl_cons]
    rw [if_neg (by omega)]
    have ht : List.take s (c ++ (cs.flatten ++ rest)) = c := by rw [← hc, List.take_left]
    have hd : List.drop s (c ++ (cs.flatten ++ rest)) = cs.flatten ++ rest := by
      rw [← hc, List.drop_left]
    rw [ht, hd, updInto_eq _ _ _ (by omega), updInto_eq _ _ _ (by omega)]
    simp only [Outcome.bind_ok]
    exact ih _ _ hrest (by rw [zipPrefix_length _ _ _ (by omega)]; exact hmn)
      (by rw [zipPrefix_length _ _ _ (by omega)]; exact hmx)

end GeomVerif
