/-
Position bookkeeping of the WKT lexer (lex.go lexPos / next) and totality of
(*SyntaxError).Error's slicing under the resulting invariant.
-/
import GeomVerif.Model.WktParse

namespace GeomVerif.WktParse
open GeomVerif

/-- lineStart + linePos is the current offset, inside the text, and the current line has no
newline before the offset. -/
def PosInv (w : Input) (p : Pos) : Prop :=
  p.lineStart + p.linePos = p.wktPos ∧ p.wktPos ≤ w.size ∧
  ∀ i, p.lineStart ≤ i → i < p.wktPos → w.getD i 0 ≠ 10

theorem posInv_zero (w : Input) : PosInv w {} := ⟨rfl, Nat.zero_le _, fun i _ h => absurd h (Nat.not_lt_zero i)⟩

theorem peek_lt (w : Input) (l : Lx) (h : peek w l ≠ 0) (hle : l.cur.wktPos ≤ w.size) :
    l.cur.wktPos < w.size ∧ peek w l = (w.getD l.cur.wktPos 0).toNat := by
  unfold peek at h ⊢
  by_cases he : l.cur.wktPos = w.size
  · simp [he] at h
  · simp only [beq_iff_eq, he, if_false] at h ⊢
    exact ⟨by omega, trivial⟩

theorem next_cur (w : Input) (l : Lx) (h : PosInv w l.cur) : PosInv w (next w l).cur := by
  obtain ⟨h1, h2, h3⟩ := h
  unfold next
  simp only
  split
  · rename_i hc
    have hc' : peek w l ≠ 0 := by simpa using hc
    obtain ⟨hlt, hpk⟩ := peek_lt w l hc' h2
    split
    · exact ⟨by simp [Pos.advanceLine], by simp [Pos.advanceLine]; omega,
        fun i a b => by simp [Pos.advanceLine] at a b; omega⟩
    · rename_i hn
      refine ⟨by simp [Pos.advanceOne]; omega, by simp [Pos.advanceOne]; omega, fun i a b => ?_⟩
      simp only [Pos.advanceOne] at a b
      by_cases hi : i = l.cur.wktPos
      · subst hi
        intro hcontra
        apply hn
        rw [hpk, hcontra]; rfl
      · exact h3 i a (by omega)
  · exact ⟨h1, h2, h3⟩

theorem next_last (w : Input) (l : Lx) : (next w l).last = l.last ∧ (next w l).lastErr = l.lastErr := by
  unfold next; simp only; split
  · split <;> exact ⟨rfl, rfl⟩
  · exact ⟨rfl, rfl⟩

theorem trimLeftN_inv (w : Input) (n : Nat) (l : Lx) (h : PosInv w l.cur) :
    PosInv w (trimLeftN w n l).cur ∧ (trimLeftN w n l).last = l.last ∧
      (trimLeftN w n l).lastErr = l.lastErr := by
  induction n generalizing l with
  | zero => exact ⟨h, rfl, rfl⟩
  | succ n ih =>
    unfold trimLeftN
    simp only
    split
    · exact ⟨h, rfl, rfl⟩
    · obtain ⟨a, b, c⟩ := ih (next w l) (next_cur w l h)
      exact ⟨a, b.trans (next_last w l).1, c.trans (next_last w l).2⟩

theorem letters_inv (w : Input) (n : Nat) (l : Lx) (acc : List Nat) (h : PosInv w l.cur) :
    PosInv w (letters w n l acc).1.cur ∧ (letters w n l acc).1.last = l.last ∧
      (letters w n l acc).1.lastErr = l.lastErr := by
  induction n generalizing l acc with
  | zero => exact ⟨h, rfl, rfl⟩
  | succ n ih =>
    unfold letters
    simp only
    split
    · exact ⟨h, rfl, rfl⟩
    · obtain ⟨a, b, c⟩ := ih (next w l) _ (next_cur w l h)
      exact ⟨a, b.trans (next_last w l).1, c.trans (next_last w l).2⟩

theorem numRun_inv (w : Input) (n : Nat) (l : Lx) (acc : List Nat) (h : PosInv w l.cur) :
    PosInv w (numRun w n l acc).1.cur ∧ (numRun w n l acc).1.last = l.last ∧
      (numRun w n l acc).1.lastErr = l.lastErr := by
  induction n generalizing l acc with
  | zero => exact ⟨h, rfl, rfl⟩
  | succ n ih =>
    unfold numRun
    simp only
    split
    · exact ⟨h, rfl, rfl⟩
    · obtain ⟨a, b, c⟩ := ih (next w l) _ (next_cur w l h)
      exact ⟨a, b.trans (next_last w l).1, c.trans (next_last w l).2⟩

/-- Where a syntax error points. -/
def ErrInv (w : Input) (e : SynErr) : Prop :=
  ∃ p, PosInv w p ∧ e.lineStart = p.lineStart ∧ e.linePos = p.linePos

def ErrOK (w : Input) : Option PErr → Prop
  | some (.syn e) => ErrInv w e
  | _ => True

/-- Lexer state invariant. -/
def LexInv (w : Input) (l : Lx) : Prop := PosInv w l.cur ∧ PosInv w l.last ∧ ErrOK w l.lastErr

theorem setSyntaxError_inv (w : Input) (l : Lx) (a b : String) (h : LexInv w l) :
    LexInv w (setSyntaxError l a b) := by
  obtain ⟨h1, h2, h3⟩ := h
  unfold setSyntaxError setError
  split
  · exact ⟨h1, h2, ⟨l.last, h2, rfl, rfl⟩⟩
  · exact ⟨h1, h2, h3⟩

theorem lexErrorCall_inv (w : Input) (l : Lx) (s : String) (h : LexInv w l) :
    LexInv w (lexErrorCall l s) := setSyntaxError_inv w l _ _ h

theorem lexInv_of_parts {w : Input} {l l' : Lx} (h : LexInv w l) (hc : PosInv w l'.cur)
    (hl : l'.last = l.last) (he : l'.lastErr = l.lastErr) : LexInv w l' := by
  obtain ⟨_, h2, h3⟩ := h
  exact ⟨hc, hl ▸ h2, he ▸ h3⟩

theorem lexKeyword_inv (w : Input) (l : Lx) (h : LexInv w l) : LexInv w (lexKeyword w l).1 := by
  unfold lexKeyword
  obtain ⟨a1, a2, a3⟩ := letters_inv w (w.size - l.cur.wktPos) l [] h.1
  generalize hL : letters w (w.size - l.cur.wktPos) l [] = L at a1 a2 a3
  obtain ⟨l1, cs⟩ := L
  simp only at a1 a2 a3 ⊢
  have i1 : LexInv w l1 := lexInv_of_parts h a1 a2 a3
  -- whatever the Z / M gluing does, it is a composition of trimLeft and next
  have glue : ∀ (l2 : Lx) (s : String), LexInv w l2 →
      LexInv w (if toUpper (peek w l2) == 77 then (next w l2, s.push 'M') else (l2, s)).1 := by
    intro l2 s h2
    split
    · exact lexInv_of_parts h2 (next_cur w l2 h2.1) (next_last w l2).1 (next_last w l2).2
    · exact h2
  have key : ∀ (r : Lx × String), LexInv w r.1 →
      LexInv w (if keywordToken r.2 == 0 then (setLexError r.1 "keyword", (0 : Int)) else (r.1, keywordToken r.2)).1 := by
    intro r hr
    split
    · exact setSyntaxError_inv w _ _ _ hr
    · exact hr
  by_cases hE : strOfCodes cs != "EMPTY"
  · simp only [hE, if_true]
    obtain ⟨b1, b2, b3⟩ := trimLeftN_inv w (w.size - l1.cur.wktPos) l1 i1.1
    have i2 : LexInv w (trimLeft w l1) := lexInv_of_parts i1 b1 b2 b3
    by_cases hZ : toUpper (peek w (trimLeft w l1)) == 90
    · simp only [hZ, if_true]
      have i3 : LexInv w (next w (trimLeft w l1)) :=
        lexInv_of_parts i2 (next_cur w _ i2.1) (next_last w _).1 (next_last w _).2
      exact key _ (glue _ _ i3)
    · simp only [hZ]
      exact key _ (glue _ _ i2)
  · simp only [hE]
    exact key (l1, strOfCodes cs) i1

/-- Lex keeps the invariant; in particular `lastPos` is always a genuine position. -/
theorem lex_inv (parseNum : List Char → Option Wkb.Ord) (w : Input) (l : Lx) (h : LexInv w l) :
    LexInv w (lex parseNum w l).1 := by
  unfold lex
  obtain ⟨b1, b2, b3⟩ := trimLeftN_inv w (w.size - l.cur.wktPos) l h.1
  have i0 : LexInv w (trimLeft w l) := lexInv_of_parts h b1 b2 b3
  have i1 : LexInv w { trimLeft w l with last := (trimLeft w l).cur } := ⟨i0.1, i0.1, i0.2.2⟩
  generalize hl1 : ({ trimLeft w l with last := (trimLeft w l).cur } : Lx) = l1 at i1
  simp only [hl1]
  split
  · exact i1
  · split
    · exact lexInv_of_parts i1 (next_cur w l1 i1.1) (next_last w l1).1 (next_last w l1).2
    · split
      · exact lexKeyword_inv w l1 i1
      · split
        · obtain ⟨c1, c2, c3⟩ := numRun_inv w (w.size - (trimLeft w l).cur.wktPos) l1 [] i1.1
          generalize hR : numRun w (w.size - (trimLeft w l).cur.wktPos) l1 [] = R at c1 c2 c3
          obtain ⟨l2, cs⟩ := R
          simp only at c1 c2 c3 ⊢
          have i2 : LexInv w l2 := lexInv_of_parts i1 c1 c2 c3
          split
          · exact setSyntaxError_inv w _ _ _ i2
          · exact i2
        · exact setSyntaxError_inv w _ _ _
            (lexInv_of_parts i1 (next_cur w l1 i1.1) (next_last w l1).1 (next_last w l1).2)


/-! ## (*SyntaxError).Error never slices out of range -/

theorem indexByte_some {bs : List UInt8} {b : UInt8} {i : Nat} (h : indexByte bs b = some i) :
    ∃ hi : i < bs.length, bs[i] = b := by
  unfold indexByte at h
  simp only at h
  split at h
  · rename_i hlt
    cases h
    exact ⟨hlt, by simpa using List.findIdx_getElem (w := hlt)⟩
  · cases h

theorem lineEndOf_bounds (w : Input) (p : Pos) (h : PosInv w p) :
    p.wktPos ≤ lineEndOf w p.lineStart ∧ lineEndOf w p.lineStart ≤ w.size := by
  obtain ⟨h1, h2, h3⟩ := h
  unfold lineEndOf
  cases hidx : indexByte (w.toList.drop p.lineStart) 10 with
  | none => exact ⟨h2, Nat.le_refl _⟩
  | some i =>
    obtain ⟨hi, hb⟩ := indexByte_some hidx
    simp only [List.length_drop, Array.length_toList] at hi
    simp only
    refine ⟨?_, by omega⟩
    apply Nat.le_of_not_lt
    intro hlt
    have hget : w.getD (p.lineStart + i) 0 = 10 := by
      have hlt' : p.lineStart + i < w.size := by omega
      have : w.getD (p.lineStart + i) 0 = w[p.lineStart + i] := by simp [Array.getD, hlt']
      rw [this]
      simpa [List.getElem_drop] using hb
    exact h3 (p.lineStart + i) (by omega) (by omega) hget

/-- Under the lexer's position invariant the message of a syntax error can always be rendered. -/
theorem render_ok (w : Input) (e : SynErr) (h : ErrInv w e) : ∃ bs, render w e = .ok bs := by
  obtain ⟨p, hp, e1, e2⟩ := h
  obtain ⟨b1, b2⟩ := lineEndOf_bounds w p hp
  obtain ⟨h1, h2, _⟩ := hp
  have hs : ¬ e.lineStart > w.size := by omega
  unfold render
  rw [if_neg hs]
  simp only
  have c1 : ¬ ((plan w e).snipStart < 0 || (plan w e).snipStart > (plan w e).snipEnd
      || (plan w e).snipEnd > w.size) = true := by
    unfold plan
    simp only [e1, e2]
    intro hc
    simp only [Bool.or_eq_true, decide_eq_true_eq] at hc
    split at hc <;> split at hc <;> omega
  have c2 : ¬ (((plan w e).pre.length : Int) + (plan w e).snipPos < 0) := by
    unfold plan
    simp only
    split <;> omega
  rw [if_neg c1, if_neg c2]
  exact ⟨_, rfl⟩

end GeomVerif.WktParse
