/-
Helper lemmas about deflate/inflate (complete characterisations by induction).
-/
import GeomVerif.Model.Flat
import GeomVerif.Spec.WellFormed

namespace GeomVerif
variable {α : Type}

/-- A leaf coordinate whose length is not the stride. -/
def badLen (s : Nat) (c : List α) : Bool := c.length != s

theorem deflate0_eq (pre c : List α) (s : Nat) :
    deflate0 pre c s = if badLen s c then .err (.strideMismatch c.length s) else .ok (pre ++ c) := by
  unfold deflate0 badLen
  by_cases h : c.length = s <;> simp [h]

/-- Complete characterisation of `deflate1`. -/
theorem deflate1_eq (pre : List α) (cs : List (List α)) (s : Nat) :
    deflate1 pre cs s =
      match cs.find? (badLen s) with
      | some c => .err (.strideMismatch c.length s)
      | none => .ok (pre ++ cs.flatten) := by
  induction cs generalizing pre with
  | nil => simp [deflate1]
  | cons c cs ih =>
    simp only [deflate1, deflate0_eq, List.find?_cons]
    cases h : badLen s c with
    | true => simp
    | false => simp [ih, List.append_assoc]

theorem deflate1_ok_iff (pre : List α) (cs : List (List α)) (s : Nat) (f : List α) :
    deflate1 pre cs s = .ok f ↔ (∀ c ∈ cs, c.length = s) ∧ f = pre ++ cs.flatten := by
  rw [deflate1_eq]
  cases h : cs.find? (badLen s) with
  | some c =>
    simp only [reduceCtorEq, false_iff, not_and]
    intro hall
    have hm := List.mem_of_find?_eq_some h
    have hb := List.find?_some h
    simp [badLen, hall c hm] at hb
  | none =>
    simp only [Outcome.ok.injEq]
    rw [List.find?_eq_none] at h
    constructor
    · intro hf
      refine ⟨?_, hf.symm⟩
      intro c hc
      have := h c hc
      simpa [badLen] using this
    · intro ⟨_, hf⟩; exact hf.symm

theorem deflate2_eq (pre : List α) (ends : List Nat) (css : List (List (List α))) (s : Nat) :
    deflate2 pre ends css s =
      match css.flatten.find? (badLen s) with
      | some c => .err (.strideMismatch c.length s)
      | none => .ok (pre ++ css.flatten.flatten, ends ++ endsOf pre.length css) := by
  induction css generalizing pre ends with
  | nil => simp [deflate2, endsOf]
  | cons cs rest ih =>
    simp only [deflate2, deflate1_eq, List.flatten_cons, List.find?_append]
    cases h : cs.find? (badLen s) with
    | some c => simp
    | none =>
      simp only [Outcome.bind_ok, Option.none_or, ih]
      cases h2 : rest.flatten.find? (badLen s) with
      | some c => simp
      | none => simp [endsOf, List.append_assoc]

theorem deflate3_eq (pre : List α) (endss : List (List Nat))
    (csss : List (List (List (List α)))) (s : Nat) :
    deflate3 pre endss csss s =
      match csss.flatten.flatten.find? (badLen s) with
      | some c => .err (.strideMismatch c.length s)
      | none => .ok (pre ++ csss.flatten.flatten.flatten, endss ++ endssOf pre.length csss) := by
  induction csss generalizing pre endss with
  | nil => simp [deflate3, endssOf]
  | cons css rest ih =>
    simp only [deflate3, deflate2_eq, List.flatten_cons, List.flatten_append, List.find?_append]
    cases h : css.flatten.find? (badLen s) with
    | some c => simp
    | none =>
      simp only [Outcome.bind_ok, Option.none_or, ih, List.nil_append]
      cases h2 : rest.flatten.flatten.find? (badLen s) with
      | some c => simp
      | none => simp [endssOf, List.append_assoc]

/-! ## inflate inverts deflate -/

theorem slice_mid (a c b : List α) :
    slice (a ++ c ++ b) a.length (a.length + c.length) = .ok c := by
  unfold slice
  have h : a.length ≤ a.length + c.length ∧ a.length + c.length ≤ (a ++ c ++ b).length := by
    simp only [List.length_append]; omega
  rw [if_pos h]
  simp [List.append_assoc]

theorem inflate0_mid (a c b : List α) (s : Nat) (hc : c.length = s) :
    inflate0 (a ++ c ++ b) a.length (a.length + s) s = .ok c := by
  unfold inflate0
  simp only [ne_eq, not_true_eq_false, if_false]
  rw [← hc]; exact slice_mid a c b

theorem inflate1Loop_ok (a b : List α) (cs : List (List α)) (s : Nat)
    (h : ∀ c ∈ cs, c.length = s) :
    inflate1Loop (a ++ cs.flatten ++ b) s cs.length a.length = .ok cs := by
  induction cs generalizing a with
  | nil => simp [inflate1Loop]
  | cons c cs ih =>
    have hc : c.length = s := h c (by simp)
    have hrest : ∀ c' ∈ cs, c'.length = s := fun c' hc' => h c' (by simp [hc'])
    simp only [List.length_cons, inflate1Loop, List.flatten_cons]
    have e1 : a ++ (c ++ cs.flatten) ++ b = a ++ c ++ (cs.flatten ++ b) := by
      simp [List.append_assoc]
    have e2 : a ++ (c ++ cs.flatten) ++ b = (a ++ c) ++ cs.flatten ++ b := by
      simp [List.append_assoc]
    rw [e1, inflate0_mid a c _ s hc, ← e1, e2]
    have := ih (a ++ c) hrest
    simp only [List.length_append, hc] at this
    rw [this]; rfl

theorem flatten_length_of_all (cs : List (List α)) (s : Nat) (h : ∀ c ∈ cs, c.length = s) :
    cs.flatten.length = cs.length * s := by
  induction cs with
  | nil => simp
  | cons c cs ih =>
    have hc : c.length = s := h c (by simp)
    have := ih (fun c' hc' => h c' (by simp [hc']))
    simp only [List.flatten_cons, List.length_append, List.length_cons, hc, this]
    rw [Nat.add_mul]; omega

theorem inflate1_ok (a b : List α) (cs : List (List α)) (s : Nat) (hs : 0 < s)
    (h : ∀ c ∈ cs, c.length = s) :
    inflate1 (a ++ cs.flatten ++ b) a.length (a.length + cs.flatten.length) s = .ok cs := by
  unfold inflate1
  have hlen := flatten_length_of_all cs s h
  have h1 : ¬ s = 0 := by omega
  have h2 : ¬ (a.length + cs.flatten.length < a.length) := by omega
  rw [if_neg h1, if_neg h2]
  simp only [Nat.add_sub_cancel_left, hlen, Nat.mul_div_cancel _ hs]
  exact inflate1Loop_ok a b cs s h

theorem inflate2_ok (a b : List α) (css : List (List (List α))) (s : Nat) (hs : 0 < s)
    (h : ∀ c ∈ css.flatten, c.length = s) :
    inflate2 (a ++ css.flatten.flatten ++ b) a.length (endsOf a.length css) s = .ok css := by
  induction css generalizing a with
  | nil => simp [inflate2, endsOf]
  | cons cs rest ih =>
    have hcs : ∀ c ∈ cs, c.length = s := fun c hc => h c (by simp [hc])
    have hrest : ∀ c ∈ rest.flatten, c.length = s := fun c hc => h c (by
      simp only [List.flatten_cons, List.mem_append]; exact Or.inr hc)
    simp only [endsOf, inflate2, List.flatten_cons, List.flatten_append]
    have e1 : a ++ (cs.flatten ++ rest.flatten.flatten) ++ b
        = a ++ cs.flatten ++ (rest.flatten.flatten ++ b) := by simp [List.append_assoc]
    have e2 : a ++ (cs.flatten ++ rest.flatten.flatten) ++ b
        = (a ++ cs.flatten) ++ rest.flatten.flatten ++ b := by simp [List.append_assoc]
    rw [e1, inflate1_ok a _ cs s hs hcs, ← e1, e2]
    have := ih (a ++ cs.flatten) hrest
    simp only [List.length_append] at this
    rw [Outcome.bind_ok, this]; rfl

theorem endsOf_getLast (off : Nat) (css : List (List (List α))) :
    (endsOf off css).getLast? = if css = [] then none else some (off + css.flatten.flatten.length) := by
  induction css generalizing off with
  | nil => simp [endsOf]
  | cons cs rest ih =>
    simp only [endsOf, List.getLast?_cons, ih, reduceCtorEq, if_false]
    cases rest with
    | nil => simp
    | cons r rs => simp [Nat.add_assoc]

theorem inflate3_ok (a b : List α) (csss : List (List (List (List α)))) (s : Nat) (hs : 0 < s)
    (h : ∀ c ∈ csss.flatten.flatten, c.length = s) :
    inflate3 (a ++ csss.flatten.flatten.flatten ++ b) a.length (endssOf a.length csss) s
      = .ok csss := by
  induction csss generalizing a with
  | nil => simp [inflate3, endssOf]
  | cons css rest ih =>
    have hcss : ∀ c ∈ css.flatten, c.length = s := fun c hc => h c (by
      simp only [List.flatten_cons, List.flatten_append, List.mem_append]; exact Or.inl hc)
    have hrest : ∀ c ∈ rest.flatten.flatten, c.length = s := fun c hc => h c (by
      simp only [List.flatten_cons, List.flatten_append, List.mem_append]; exact Or.inr hc)
    simp only [endssOf, inflate3, List.flatten_cons, List.flatten_append]
    have e1 : a ++ (css.flatten.flatten ++ rest.flatten.flatten.flatten) ++ b
        = a ++ css.flatten.flatten ++ (rest.flatten.flatten.flatten ++ b) := by
      simp [List.append_assoc]
    have e2 : a ++ (css.flatten.flatten ++ rest.flatten.flatten.flatten) ++ b
        = (a ++ css.flatten.flatten) ++ rest.flatten.flatten.flatten ++ b := by
      simp [List.append_assoc]
    rw [e1, inflate2_ok a _ css s hs hcss, ← e1, endsOf_getLast, Outcome.bind_ok]
    have := ih (a ++ css.flatten.flatten) hrest
    simp only [List.length_append] at this
    by_cases hnil : css = []
    · subst hnil
      simp only [List.flatten_nil, List.append_nil, List.length_nil, Nat.add_zero,
        List.nil_append] at this ⊢
      rw [if_pos trivial]
      show (inflate3 _ _ _ _ >>= _) = _
      rw [this]; rfl
    · rw [e2, if_neg hnil]
      show (inflate3 _ _ _ _ >>= _) = _
      rw [this]; rfl

/-! ## MultiPoint -/

theorem mpSetLoop_eq (s : Nat) (flat : List α) (ends : List Nat) (cs : List (Option (List α))) :
    MPoint.setLoop s flat ends cs =
      match (somes cs).find? (badLen s) with
      | some c => .err (.strideMismatch c.length s)
      | none => .ok (flat ++ (somes cs).flatten, ends ++ mpEndsOf flat.length cs) := by
  induction cs generalizing flat ends with
  | nil => simp [MPoint.setLoop, somes, mpEndsOf]
  | cons c cs ih =>
    cases c with
    | none =>
      simp only [MPoint.setLoop, somes, ih, mpEndsOf]
      cases (somes cs).find? (badLen s) <;> simp [List.append_assoc]
    | some c =>
      simp only [MPoint.setLoop, somes, deflate0_eq, List.find?_cons, mpEndsOf]
      cases h : badLen s c with
      | true => simp
      | false =>
        simp only [Bool.false_eq_true, if_false, Outcome.bind_ok, ih]
        cases (somes cs).find? (badLen s) <;> simp [List.append_assoc]

theorem mpCoordsLoop_ok (a b : List α) (cs : List (Option (List α))) (s : Nat) (hs : 0 < s)
    (h : ∀ c ∈ somes cs, c.length = s) :
    MPoint.coordsLoop (a ++ (somes cs).flatten ++ b) s (mpEndsOf a.length cs) a.length a.length
      = .ok cs := by
  induction cs generalizing a with
  | nil => simp [MPoint.coordsLoop, mpEndsOf]
  | cons c cs ih =>
    cases c with
    | none =>
      have := ih a (fun c hc => h c (by simpa [somes] using hc))
      simp only [mpEndsOf, MPoint.coordsLoop, somes, ne_eq, not_true_eq_false, if_false]
      show (MPoint.coordsLoop _ _ _ _ _ >>= _) = _
      rw [this]; rfl
    | some c =>
      have hc : c.length = s := h c (by simp [somes])
      have hrest : ∀ c' ∈ somes cs, c'.length = s := fun c' hc' => h c' (by simp [somes, hc'])
      have hne : a.length + c.length ≠ a.length := by omega
      simp only [mpEndsOf, MPoint.coordsLoop, somes, List.flatten_cons, ne_eq, hne,
        not_false_eq_true, if_true]
      have e1 : a ++ (c ++ (somes cs).flatten) ++ b = a ++ c ++ ((somes cs).flatten ++ b) := by
        simp [List.append_assoc]
      have e2 : a ++ (c ++ (somes cs).flatten) ++ b = (a ++ c) ++ (somes cs).flatten ++ b := by
        simp [List.append_assoc]
      rw [e1, inflate0_mid a c _ s hc, ← e1, e2, Outcome.bind_ok]
      have := ih (a ++ c) hrest
      simp only [List.length_append, hc] at this
      rw [hc]
      show (MPoint.coordsLoop _ _ _ _ _ >>= _) = _
      rw [this]; rfl

/-! ## Produced ends are well formed -/

theorem aligned_mul (s n : Nat) : aligned s (n * s) = true := by
  unfold aligned
  by_cases h : s = 0
  · simp [h]
  · simp [h]

theorem aligned_add (s a b : Nat) (ha : aligned s a = true) (hb : aligned s b = true) :
    aligned s (a + b) = true := by
  unfold aligned at *
  by_cases h : s = 0
  · simp [h] at *; omega
  · simp [h] at *
    rw [Nat.add_mod, ha, hb]; simp

theorem endsOK_endsOf (s off : Nat) (css : List (List (List α)))
    (h : ∀ c ∈ css.flatten, c.length = s) (hoff : aligned s off = true) :
    endsOK s (endsOf off css) off (off + css.flatten.flatten.length) = true := by
  induction css generalizing off with
  | nil => simp [endsOf, endsOK]
  | cons cs rest ih =>
    have hcs : ∀ c ∈ cs, c.length = s := fun c hc => h c (by simp [hc])
    have hrest : ∀ c ∈ rest.flatten, c.length = s := fun c hc => h c (by
      simp only [List.flatten_cons, List.mem_append]; exact Or.inr hc)
    have hal : aligned s (off + cs.flatten.length) = true := by
      apply aligned_add _ _ _ hoff
      rw [flatten_length_of_all cs s hcs]; exact aligned_mul s _
    have := ih (off + cs.flatten.length) hrest hal
    simp only [endsOf, endsOK, List.flatten_cons, List.flatten_append, List.length_append, hal,
      Bool.true_and, Nat.le_add_right, decide_true]
    rw [← Nat.add_assoc]; exact this

theorem flatten_endssOf (off : Nat) (csss : List (List (List (List α)))) :
    (endssOf off csss).flatten = endsOf off csss.flatten := by
  induction csss generalizing off with
  | nil => simp [endssOf, endsOf]
  | cons css rest ih =>
    simp only [endssOf, List.flatten_cons, ih]
    clear ih
    induction css generalizing off with
    | nil => simp [endsOf]
    | cons cs r ih2 =>
      simp only [endsOf, List.cons_append, List.flatten_cons, List.flatten_append,
        List.length_append, List.cons.injEq, true_and]
      rw [← Nat.add_assoc]; exact ih2 _

theorem endsOK_mpEndsOf (s off : Nat) (cs : List (Option (List α)))
    (h : ∀ c ∈ somes cs, c.length = s) (hoff : aligned s off = true) :
    endsOK s (mpEndsOf off cs) off (off + (somes cs).flatten.length) = true := by
  induction cs generalizing off with
  | nil => simp [mpEndsOf, endsOK, somes]
  | cons c cs ih =>
    cases c with
    | none =>
      have := ih off (fun c hc => h c (by simpa [somes] using hc)) hoff
      simp only [mpEndsOf, endsOK, somes, hoff, Bool.true_and, Nat.le_refl, decide_true]
      exact this
    | some c =>
      have hc : c.length = s := h c (by simp [somes])
      have hrest : ∀ c' ∈ somes cs, c'.length = s := fun c' hc' => h c' (by simp [somes, hc'])
      have hal : aligned s (off + c.length) = true := by
        apply aligned_add _ _ _ hoff
        rw [hc]; simpa using aligned_mul s 1
      have := ih (off + c.length) hrest hal
      simp only [mpEndsOf, endsOK, somes, List.flatten_cons, List.length_append, hal,
        Bool.true_and, Nat.le_add_right, decide_true]
      rw [← Nat.add_assoc]; exact this

end GeomVerif
