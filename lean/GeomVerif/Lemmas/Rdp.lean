/-
Lemmas for C20: the explicit-stack worker `dpLoop` computes the recursive Douglas–Peucker split
tree, and every piece of that tree that is not split further lies within the threshold.
All statements are parametric in the distance function; the comparison `gt` is assumed to be
a strict weak order on the distances that occur (true of `>` on floats that are not NaN and of
`>` in exact arithmetic).
-/
import GeomVerif.Properties.C20

namespace GeomVerif.Rdp
variable {δ : Type}

/-- `gt` behaves like `>` of a total preorder. -/
structure GtOrder (D : DistOps δ) : Prop where
  irrefl : ∀ a, D.gt a a = false
  trans : ∀ a b c, D.gt a b = true → D.gt b c = true → D.gt a c = true
  negtrans : ∀ a b c, D.gt a b = false → D.gt b c = false → D.gt a c = false

/-- Every point strictly between `i` and `j` is within the threshold of segment (i, j). -/
def Closed (D : DistOps δ) (i j : Nat) : Prop :=
  ∀ k, i < k → k < j → D.gt (D.dist i j k) D.thr2 = false

/-- The scan returns a maximum: nothing scanned exceeds it, and it is not below the start value. -/
theorem scan_max (D : DistOps δ) (ord : GtOrder D) (s e : Nat) (cnt : Nat) :
    ∀ (i : Nat) (md : δ) (mi : Nat),
      (∀ k, i ≤ k → k < i + cnt → D.gt (D.dist s e k) (scan D s e cnt i md mi).1 = false) ∧
      D.gt md (scan D s e cnt i md mi).1 = false := by
  induction cnt with
  | zero =>
    intro i md mi
    exact ⟨fun k h1 h2 => by omega, by simp only [scan]; exact ord.irrefl md⟩
  | succ cnt ih =>
    intro i md mi
    simp only [scan]
    cases hgt : D.gt (D.dist s e i) md with
    | true =>
      simp only [if_true]
      obtain ⟨h1, h2⟩ := ih (i + 1) (D.dist s e i) i
      refine ⟨fun k hk1 hk2 => ?_, ?_⟩
      · by_cases hki : k = i
        · subst hki; exact h2
        · exact h1 k (by omega) (by omega)
      · cases h : D.gt md (scan D s e cnt (i + 1) (D.dist s e i) i).1 with
        | false => rfl
        | true =>
          have := ord.trans _ _ _ hgt h
          rw [h2] at this; exact Bool.noConfusion this
    | false =>
      simp only [Bool.false_eq_true, if_false]
      obtain ⟨h1, h2⟩ := ih (i + 1) md mi
      refine ⟨fun k hk1 hk2 => ?_, h2⟩
      by_cases hki : k = i
      · subst hki; exact ord.negtrans _ _ _ hgt h2
      · exact h1 k (by omega) (by omega)

/-- A segment the worker does not split has every interior point within the threshold. -/
theorem closed_of_not_split (D : DistOps δ) (ord : GtOrder D) (s e : Nat)
    (h : D.gt (scanSeg D s e).1 D.thr2 = false) : Closed D s e := by
  intro k hk1 hk2
  have := (scan_max D ord s e (e - s - 1) (s + 1) D.zero 0).1 k (by omega) (by omega)
  exact ord.negtrans _ _ _ this h

/-! ### The recursive split tree -/

/-- Interior indexes the recursion retains for segment (s, e), in increasing order
(`n` bounds the recursion depth; `e - s ≤ n` suffices). -/
def dpList (D : DistOps δ) : Nat → Nat → Nat → List Nat
  | 0, _, _ => []
  | n + 1, s, e =>
    if D.gt (scanSeg D s e).1 D.thr2 then
      dpList D n s (scanSeg D s e).2 ++ (scanSeg D s e).2 :: dpList D n (scanSeg D s e).2 e
    else []

/-- Loop iterations spent on segment (s, e) and everything it spawns. -/
def cost (D : DistOps δ) : Nat → Nat → Nat → Nat
  | 0, _, _ => 1
  | n + 1, s, e =>
    if D.gt (scanSeg D s e).1 D.thr2 then
      1 + cost D n (scanSeg D s e).2 e + cost D n s (scanSeg D s e).2
    else 1

/-- The marks set while segment (s, e) is worked off, in execution order (split point, then the
right half, then the left half). -/
def marks (D : DistOps δ) : Nat → Nat → Nat → List Bool → List Bool
  | 0, _, _, mask => mask
  | n + 1, s, e, mask =>
    if D.gt (scanSeg D s e).1 D.thr2 then
      marks D n s (scanSeg D s e).2 (marks D n (scanSeg D s e).2 e (setTrue mask (scanSeg D s e).2))
    else mask

/-- With no interior there is nothing to split (given threshold² ≥ 0). -/
theorem no_split_of_adjacent (D : DistOps δ) (h0 : D.gt D.zero D.thr2 = false) (s e : Nat)
    (h : e ≤ s + 1) : D.gt (scanSeg D s e).1 D.thr2 = false := by
  have : e - s - 1 = 0 := by omega
  simp only [scanSeg, this, scan, h0]

/-- **The stack loop works a segment off completely before touching what is below it**, using
exactly `cost` iterations: the explicit stack implements the recursion. -/
theorem loop_top (D : DistOps δ) (h0 : D.gt D.zero D.thr2 = false) :
    ∀ (n s e : Nat), s < e → e - s ≤ n → ∀ (F : Nat) (rest : List (Nat × Nat)) (mask : List Bool),
      dpLoop D (cost D n s e + F) ((s, e) :: rest) mask = dpLoop D F rest (marks D n s e mask) := by
  intro n
  induction n with
  | zero => intro s e h1 h2; omega
  | succ n ih =>
    intro s e hse hn F rest mask
    simp only [cost, marks]
    cases hsp : D.gt (scanSeg D s e).1 D.thr2 with
    | false =>
      simp only [Bool.false_eq_true, if_false]
      rw [Nat.add_comm 1 F]
      simp only [dpLoop, hsp, Bool.false_eq_true, if_false]
    | true =>
      simp only [if_true]
      obtain ⟨hm1, hm2, _⟩ := C20_split_inside D s e h0 hsp
      have e1 : 1 + cost D n (scanSeg D s e).2 e + cost D n s (scanSeg D s e).2 + F
          = (cost D n (scanSeg D s e).2 e + (cost D n s (scanSeg D s e).2 + F)) + 1 := by omega
      rw [e1]
      simp only [dpLoop, hsp, if_true]
      rw [ih (scanSeg D s e).2 e hm2 (by omega), ih s (scanSeg D s e).2 hm1 (by omega)]

/-- `cost` is at most 2(e − s) − 1: the fuel `2·size` of SimplifyFlatCoords always suffices. -/
theorem cost_le (D : DistOps δ) (h0 : D.gt D.zero D.thr2 = false) :
    ∀ (n s e : Nat), s < e → e - s ≤ n → cost D n s e + 1 ≤ 2 * (e - s) := by
  intro n
  induction n with
  | zero => intro s e h1 h2; omega
  | succ n ih =>
    intro s e hse hn
    simp only [cost]
    cases hsp : D.gt (scanSeg D s e).1 D.thr2 with
    | false => simp only [Bool.false_eq_true, if_false]; omega
    | true =>
      simp only [if_true]
      obtain ⟨hm1, hm2, _⟩ := C20_split_inside D s e h0 hsp
      have a := ih (scanSeg D s e).2 e hm2 (by omega)
      have b := ih s (scanSeg D s e).2 hm1 (by omega)
      omega

/-! ### What the marks are -/

theorem setTrue_getD (m : List Bool) (i j : Nat) (hi : i < m.length) :
    (setTrue m i).getD j false = (m.getD j false || decide (j = i)) := by
  unfold setTrue
  simp only [List.getD_eq_getElem?_getD, List.getElem?_set]
  by_cases hji : j = i
  · subst hji; simp [hi]
  · have : ¬ i = j := fun h => hji h.symm
    simp [hji, this]

theorem marks_length (D : DistOps δ) : ∀ (n s e : Nat) (mask : List Bool),
    (marks D n s e mask).length = mask.length := by
  intro n
  induction n with
  | zero => intro s e mask; rfl
  | succ n ih =>
    intro s e mask
    simp only [marks]
    split
    · rw [ih, ih, setTrue_length]
    · rfl

/-- The marks set for segment (s, e) are exactly the members of the recursive list. -/
theorem marks_getD (D : DistOps δ) (h0 : D.gt D.zero D.thr2 = false) :
    ∀ (n s e : Nat), s < e → e - s ≤ n → ∀ (mask : List Bool), e < mask.length → ∀ j,
      (marks D n s e mask).getD j false = (mask.getD j false || decide (j ∈ dpList D n s e)) := by
  intro n
  induction n with
  | zero => intro s e h1 h2; omega
  | succ n ih =>
    intro s e hse hn mask he j
    simp only [marks, dpList]
    by_cases hsp : D.gt (scanSeg D s e).1 D.thr2 = true
    · simp only [hsp, if_true]
      obtain ⟨hm1, hm2, _⟩ := C20_split_inside D s e h0 hsp
      have hl1 : (setTrue mask (scanSeg D s e).2).length = mask.length := setTrue_length _ _
      have hl2 := marks_length D n (scanSeg D s e).2 e (setTrue mask (scanSeg D s e).2)
      rw [ih s _ hm1 (by omega) _ (by rw [hl2, hl1]; omega) j,
          ih _ e hm2 (by omega) _ (by rw [hl1]; exact he) j,
          setTrue_getD _ _ _ (by omega)]
      simp only [List.mem_append, List.mem_cons, Bool.decide_or, Bool.or_assoc]
      cases mask.getD j false <;> cases decide (j = (scanSeg D s e).2) <;>
        cases decide (j ∈ dpList D n (scanSeg D s e).2 e) <;>
        cases decide (j ∈ dpList D n s (scanSeg D s e).2) <;> rfl
    · simp [hsp]

/-! ### The recursive list: bounds, order, closed pieces -/

theorem dpList_mem (D : DistOps δ) (h0 : D.gt D.zero D.thr2 = false) :
    ∀ (n s e : Nat), s < e → e - s ≤ n → ∀ j ∈ dpList D n s e, s < j ∧ j < e := by
  intro n
  induction n with
  | zero => intro s e h1 h2; omega
  | succ n ih =>
    intro s e hse hn j hj
    simp only [dpList] at hj
    cases hsp : D.gt (scanSeg D s e).1 D.thr2 with
    | false => simp [hsp] at hj
    | true =>
      simp only [hsp, if_true, List.mem_append, List.mem_cons] at hj
      obtain ⟨hm1, hm2, _⟩ := C20_split_inside D s e h0 hsp
      rcases hj with hj | hj | hj
      · have := ih s _ hm1 (by omega) j hj; omega
      · omega
      · have := ih _ e hm2 (by omega) j hj; omega

/-- Pairs of neighbours in a list. -/
def adjPairs : List Nat → List (Nat × Nat)
  | [] => []
  | [_] => []
  | a :: b :: rest => (a, b) :: adjPairs (b :: rest)

theorem adjPairs_join (A : List Nat) (m : Nat) (B : List Nat) :
    adjPairs (A ++ m :: B) = adjPairs (A ++ [m]) ++ adjPairs (m :: B) := by
  induction A with
  | nil => simp [adjPairs]
  | cons a A ih =>
    cases A with
    | nil => simp [adjPairs]
    | cons a' A' =>
      simp only [List.cons_append, adjPairs, List.cons.injEq, true_and]
      exact ih

/-- **Every pair of neighbours in `s :: dpList s e ++ [e]` is closed.** -/
theorem dpList_closed (D : DistOps δ) (ord : GtOrder D) (h0 : D.gt D.zero D.thr2 = false) :
    ∀ (n s e : Nat), s < e → e - s ≤ n →
      ∀ p ∈ adjPairs (s :: dpList D n s e ++ [e]), Closed D p.1 p.2 := by
  intro n
  induction n with
  | zero => intro s e h1 h2; omega
  | succ n ih =>
    intro s e hse hn p hp
    simp only [dpList] at hp
    cases hsp : D.gt (scanSeg D s e).1 D.thr2 with
    | false =>
      simp only [hsp, Bool.false_eq_true, if_false, List.cons_append, List.nil_append,
        adjPairs, List.mem_singleton] at hp
      subst hp
      exact closed_of_not_split D ord s e hsp
    | true =>
      obtain ⟨hm1, hm2, _⟩ := C20_split_inside D s e h0 hsp
      simp only [hsp, if_true] at hp
      have e1 : s :: (dpList D n s (scanSeg D s e).2 ++ (scanSeg D s e).2 ::
            dpList D n (scanSeg D s e).2 e) ++ [e]
          = (s :: dpList D n s (scanSeg D s e).2) ++ (scanSeg D s e).2 ::
            (dpList D n (scanSeg D s e).2 e ++ [e]) := by simp
      rw [e1, adjPairs_join, List.mem_append] at hp
      rcases hp with hp | hp
      · exact ih s _ hm1 (by omega) p (by simpa using hp)
      · exact ih _ e hm2 (by omega) p (by simpa using hp)

/-- The retained sequence is strictly increasing. -/
theorem dpList_sorted (D : DistOps δ) (h0 : D.gt D.zero D.thr2 = false) :
    ∀ (n s e : Nat), s < e → e - s ≤ n → (dpList D n s e).Pairwise (· < ·) := by
  intro n
  induction n with
  | zero => intro s e h1 h2; omega
  | succ n ih =>
    intro s e hse hn
    simp only [dpList]
    cases hsp : D.gt (scanSeg D s e).1 D.thr2 with
    | false => simp
    | true =>
      simp only [if_true]
      obtain ⟨hm1, hm2, _⟩ := C20_split_inside D s e h0 hsp
      rw [List.pairwise_append]
      refine ⟨ih s _ hm1 (by omega), ?_, ?_⟩
      · rw [List.pairwise_cons]
        exact ⟨fun b hb => (dpList_mem D h0 n _ e hm2 (by omega) b hb).1, ih _ e hm2 (by omega)⟩
      · intro a ha b hb
        have h1 := (dpList_mem D h0 n s _ hm1 (by omega) a ha).2
        rcases List.mem_cons.mp hb with rfl | hb
        · exact h1
        · have := (dpList_mem D h0 n _ e hm2 (by omega) b hb).1; omega

/-- In a strictly increasing list, two members with no member strictly between are neighbours. -/
theorem adjacent_of_sorted : ∀ (L : List Nat), L.Pairwise (· < ·) → ∀ i j, i ∈ L → j ∈ L → i < j →
    (∀ k ∈ L, ¬ (i < k ∧ k < j)) → (i, j) ∈ adjPairs L := by
  intro L
  induction L with
  | nil => intro _ i j hi; cases hi
  | cons a L ih =>
    intro hs i j hi hj hij hno
    rw [List.pairwise_cons] at hs
    obtain ⟨ha, hs'⟩ := hs
    cases L with
    | nil =>
      simp only [List.mem_singleton] at hi hj; omega
    | cons b L' =>
      by_cases hia : i = a
      · subst hia
        have hjL : j ∈ b :: L' := by
          rcases List.mem_cons.mp hj with h | h
          · omega
          · exact h
        have hb : i < b := ha b (by simp)
        have hbj : b ≤ j := by
          rcases List.mem_cons.mp hjL with h | h
          · omega
          · rw [List.pairwise_cons] at hs'; exact Nat.le_of_lt (hs'.1 j h)
        have : b = j := by
          by_cases hbj' : b = j
          · exact hbj'
          · exact absurd ⟨hb, by omega⟩ (hno b (by simp))
        subst this
        simp [adjPairs]
      · have hiL : i ∈ b :: L' := by
          rcases List.mem_cons.mp hi with h | h
          · exact absurd h hia
          · exact h
        have hjL : j ∈ b :: L' := by
          rcases List.mem_cons.mp hj with h | h
          · have := ha i hiL; omega
          · exact h
        have := ih hs' i j hiL hjL hij (fun k hk => hno k (List.mem_cons_of_mem _ hk))
        simp only [adjPairs, List.mem_cons]
        exact Or.inr this

end GeomVerif.Rdp
