/-
Helper lemmas for C03/C04: byte-level round trips, agreement of the model's byte
writers with the reference encoder's, io.ReadFull over arbitrarily split input.
-/
import GeomVerif.Lemmas.Multi
import GeomVerif.Model.WkbConv

namespace GeomVerif.Wkb
open GeomVerif GeomVerif.WkbSpec

theorem ofNat_toNat (k : Nat) (h : k < 256) : (UInt8.ofNat k).toNat = k := by
  simp [UInt8.toNat_ofNat, Nat.mod_eq_of_lt h]

/-- Little-endian decode of the four bytes written for `n`. -/
theorem natOfLE_u32 (n : Nat) :
    natOfLE [UInt8.ofNat (n % 256), UInt8.ofNat (n / 256 % 256), UInt8.ofNat (n / 65536 % 256),
             UInt8.ofNat (n / 16777216 % 256)] = n % 4294967296 := by
  simp only [natOfLE, ofNat_toNat _ (Nat.mod_lt _ (by decide : 0 < 256))]
  omega

theorem readFull_append (n : Nat) (bs rest : List Byte) (h : bs.length = n) :
    readFull n (bs ++ rest) = .ok (bs, rest) := by
  unfold readFull
  by_cases h0 : n = 0
  · subst h0
    have : bs = [] := List.eq_nil_of_length_eq_zero h
    simp [this]
  · have hne : bs ≠ [] := by intro e; rw [e] at h; simp at h; omega
    have h1 : (bs ++ rest).isEmpty = false := by
      cases bs with
      | nil => exact absurd rfl hne
      | cons b bs' => rfl
    have h2 : ¬ (bs ++ rest).length < n := by simp; omega
    rw [if_neg h0, h1, if_neg (by simp), if_neg h2, ← h, List.take_left, List.drop_left]

theorem u32Bytes_length (ndr : Bool) (n : Nat) : (u32Bytes ndr n).length = 4 := by
  unfold u32Bytes; cases ndr <;> simp

/-- ReadUInt32 inverts WriteUInt32 in both byte orders and leaves the rest of the stream. -/
theorem readU32_u32Bytes (ndr : Bool) (n : Nat) (rest : List Byte) :
    readU32 ndr (u32Bytes ndr n ++ rest) = .ok (n % 4294967296, rest) := by
  unfold readU32
  rw [readFull_append 4 _ rest (u32Bytes_length ndr n)]
  simp only [Outcome.bind_ok, Outcome.ok.injEq, Prod.mk.injEq, and_true]
  unfold u32Bytes
  cases ndr <;> simp [natOfLE_u32]

/-- The model's integer writer and the reference encoder's agree byte for byte. -/
theorem u32Bytes_eq_w32 (ndr : Bool) (n : Nat) : u32Bytes ndr n = w32 ndr n := by
  unfold u32Bytes w32 be32
  cases ndr <;> simp

/-- The model's float writer and the reference encoder's agree byte for byte. -/
theorem u64Bytes_eq_w64 (ndr : Bool) (v : Ord) : u64Bytes ndr v = w64 ndr v := by
  unfold u64Bytes w64 be64
  cases ndr <;> simp [List.range, List.range.loop, ← Nat.pow_mul]

theorem writeFloats_eq_wCoord (ndr : Bool) (c : List Ord) : writeFloats ndr c = wCoord ndr c := by
  have : u64Bytes ndr = w64 ndr := funext (u64Bytes_eq_w64 ndr)
  simp [writeFloats, wCoord, this]

/-! ## io.ReadFull over a reader that splits its data arbitrarily -/

/-- io.ReadFull's loop over a reader delivering the given chunks (zero-length reads allowed,
io.EOF after the last chunk): returns the bytes obtained, what was needed still, and the chunks
left (the current chunk may be partially consumed). -/
def readFullChunks : Nat → List (List Byte) → List Byte × Nat × List (List Byte)
  | 0, cs => ([], 0, cs)
  | n + 1, [] => ([], n + 1, [])
  | n + 1, c :: cs =>
      if c.length ≤ n + 1 then
        let r := readFullChunks (n + 1 - c.length) cs
        (c ++ r.1, r.2.1, r.2.2)
      else (c.take (n + 1), 0, c.drop (n + 1) :: cs)
termination_by n cs => (cs.length, n)

theorem readFullChunks_spec (n : Nat) (cs : List (List Byte)) :
    (readFullChunks n cs).1 = cs.flatten.take n ∧
    (readFullChunks n cs).2.2.flatten = cs.flatten.drop n ∧
    (readFullChunks n cs).2.1 = n - cs.flatten.length := by
  induction cs generalizing n with
  | nil =>
    cases n with
    | zero => simp [readFullChunks]
    | succ n => simp [readFullChunks]
  | cons c cs ih =>
    cases n with
    | zero => simp [readFullChunks]
    | succ n =>
      rw [readFullChunks]
      by_cases hc : c.length ≤ n + 1
      · rw [if_pos hc]
        obtain ⟨h1, h2, h3⟩ := ih (n + 1 - c.length)
        simp only [h1, h2, h3, List.flatten_cons, List.length_append]
        refine ⟨?_, ?_, by omega⟩
        · rw [List.take_append, List.take_of_length_le hc]
        · rw [List.drop_append, List.drop_of_length_le hc]; simp
      · rw [if_neg hc]
        have hlt : n + 1 < c.length := by omega
        simp only [List.flatten_cons, List.length_append]
        refine ⟨?_, ?_, by omega⟩
        · rw [List.take_append_of_le_length (by omega)]
        · rw [List.drop_append_of_le_length (by omega)]

/-! ## Model writers = reference encoder on the simple types -/

theorem writeFloats_flatten (ndr : Bool) (cs : List (List Ord)) :
    writeFloats ndr cs.flatten = (cs.map (wCoord ndr)).flatten := by
  induction cs with
  | nil => rfl
  | cons c cs ih =>
    have : writeFloats ndr (c ++ cs.flatten) = writeFloats ndr c ++ writeFloats ndr cs.flatten := by
      simp [writeFloats]
    simp only [List.flatten_cons, List.map_cons, this, ih, writeFloats_eq_wCoord]

theorem writeFlatCoords1_eq (ndr : Bool) (cs : List (List Ord)) (s : Nat) (hs : 0 < s)
    (hall : ∀ c ∈ cs, c.length = s) :
    writeFlatCoords1 ndr cs.flatten s = wOk (wCoords ndr cs) := by
  unfold writeFlatCoords1 wCoords
  rw [if_neg (by omega), flatten_length_of_all cs s hall, Nat.mul_div_cancel _ hs,
    u32Bytes_eq_w32, writeFloats_flatten]

theorem wSeq_ok (a : List Byte) (b : Unit → WR) : wSeq (wOk a) b = (a ++ (b ()).1, (b ()).2) := rfl

theorem writeRings_eq (ndr : Bool) (s : Nat) (hs : 0 < s) (a b : List Ord)
    (rings : List (List (List Ord))) (hall : ∀ c ∈ rings.flatten, c.length = s) :
    writeRings ndr (a ++ rings.flatten.flatten ++ b) s (endsOf a.length rings) a.length
      = wOk ((rings.map (wCoords ndr)).flatten) := by
  induction rings generalizing a with
  | nil => rfl
  | cons r rest ih =>
    have hr : ∀ c ∈ r, c.length = s := fun c hc => hall c (by simp [hc])
    have hrest : ∀ c ∈ rest.flatten, c.length = s := fun c hc => hall c (by
      simp only [List.flatten_cons, List.mem_append]; exact Or.inr hc)
    simp only [endsOf, writeRings, List.flatten_cons, List.flatten_append, List.map_cons,
      Nat.add_sub_cancel_left]
    have e1 : a ++ (r.flatten ++ rest.flatten.flatten) ++ b
        = a ++ (r.flatten ++ (rest.flatten.flatten ++ b)) := by simp [List.append_assoc]
    have hsl : List.take r.flatten.length (List.drop a.length
        (a ++ (r.flatten ++ rest.flatten.flatten) ++ b)) = r.flatten := by
      rw [e1, List.drop_left, List.take_left]
    rw [hsl, writeFlatCoords1_eq ndr r s hs hr, wSeq_ok]
    have e2 : a ++ (r.flatten ++ rest.flatten.flatten) ++ b
        = (a ++ r.flatten) ++ rest.flatten.flatten ++ b := by simp [List.append_assoc]
    have := ih (a ++ r.flatten) hrest
    simp only [List.length_append] at this
    rw [e2, this]; rfl

end GeomVerif.Wkb
