/-
Independent reference encoders for ISO/OGC WKB (ISO 13249-3 / OGC 06-103r4 §8.2.3:
type = base + 1000·{0 XY, 1 Z, 2 M, 3 ZM}) and PostGIS EWKB (ZMSgeoms.txt: flag bits
0x80000000 Z, 0x40000000 M, 0x20000000 SRID followed by the SRID word), written over
the ABSTRACT geometry (nested coordinates), not over flat arrays.  Also the expected
result of decoding, with the format's carve-outs made explicit.
-/
import GeomVerif.Model.Wkb

namespace GeomVerif.WkbSpec
open GeomVerif GeomVerif.Wkb

/-- Representation-free geometry. -/
inductive AGeom where
  | point (l : Layout) (srid : Int) (c : Option (List Ord))
  | lineString (l : Layout) (srid : Int) (cs : List (List Ord))
  | polygon (l : Layout) (srid : Int) (rings : List (List (List Ord)))
  | multiPoint (l : Layout) (srid : Int) (cs : List (Option (List Ord)))
  | multiLineString (l : Layout) (srid : Int) (lines : List (List (List Ord)))
  | multiPolygon (l : Layout) (srid : Int) (polys : List (List (List (List Ord))))
  | collection (fixed : Layout) (srid : Int) (gs : List AGeom)
  deriving Repr, BEq, Inhabited

def be32 (n : Nat) : List Byte :=
  [UInt8.ofNat (n / 2^24 % 256), UInt8.ofNat (n / 2^16 % 256), UInt8.ofNat (n / 2^8 % 256),
   UInt8.ofNat (n % 256)]
def be64 (v : Ord) : List Byte :=
  let n := v.toNat
  [7, 6, 5, 4, 3, 2, 1, 0].map fun i => UInt8.ofNat (n / 2^(8 * i) % 256)
def w32 (ndr : Bool) (n : Nat) : List Byte := if ndr then (be32 n).reverse else be32 n
def w64 (ndr : Bool) (v : Ord) : List Byte := if ndr then (be64 v).reverse else be64 v
def wCoord (ndr : Bool) (c : List Ord) : List Byte := (c.map (w64 ndr)).flatten
def wCoords (ndr : Bool) (cs : List (List Ord)) : List Byte :=
  w32 ndr cs.length ++ (cs.map (wCoord ndr)).flatten

def hasZ (l : Layout) : Bool := l == 2 || l == 4
def hasM (l : Layout) : Bool := l == 3 || l == 4
def dimOf (l : Layout) : Nat := if l == 2 then 3 else if l == 3 then 3 else if l == 4 then 4 else 2

mutual
/-- Dimensionality a geometry is written with: its own layout; for a collection the fixed one,
else the smallest layout covering every member (none for a collection without members). -/
def AGeom.dims : AGeom → Layout
  | .point l _ _ | .lineString l _ _ | .polygon l _ _ => l
  | .multiPoint l _ _ | .multiLineString l _ _ | .multiPolygon l _ _ => l
  | .collection f _ gs => if f ≠ 0 then f else AGeom.cover gs
def AGeom.cover : List AGeom → Layout
  | [] => 0
  | g :: gs =>
      let a := g.dims; let b := AGeom.cover gs
      let z := hasZ a || hasZ b; let m := hasM a || hasM b
      if z && m then 4 else if z then 2 else if m then 3 else if a != 0 || b != 0 then 1 else 0
end

def AGeom.base : AGeom → Nat
  | .point .. => 1 | .lineString .. => 2 | .polygon .. => 3 | .multiPoint .. => 4
  | .multiLineString .. => 5 | .multiPolygon .. => 6 | .collection .. => 7

def AGeom.sridOf : AGeom → Int
  | .point _ s _ | .lineString _ s _ | .polygon _ s _ => s
  | .multiPoint _ s _ | .multiLineString _ s _ | .multiPolygon _ s _ => s
  | .collection _ s _ => s

inductive Fmt where
  | wkb (nanMode : Bool)
  | ewkb
  deriving Repr, BEq

def header (f : Fmt) (ndr : Bool) (base : Nat) (l : Layout) (srid : Int) : List Byte :=
  [if ndr then 1 else 0] ++
  match f with
  | .wkb _ => w32 ndr (base + 1000 * (if l == 2 then 1 else if l == 3 then 2 else if l == 4 then 3 else 0))
  | .ewkb =>
      let flags := (if hasZ l then 0x80000000 else 0) + (if hasM l then 0x40000000 else 0)
        + (if srid ≠ 0 then 0x20000000 else 0)
      w32 ndr (base + flags) ++ (if srid ≠ 0 then w32 ndr srid.toNat else [])

def encodable (l : Layout) : Bool := l == 1 || l == 2 || l == 3 || l == 4

/-- A point (possibly empty) as a complete geometry. -/
def encPoint (f : Fmt) (ndr : Bool) (l : Layout) (s : Int) (c : Option (List Ord)) :
    Option (List Byte) :=
  match c, f with
  | some c, _ => some (header f ndr 1 l s ++ wCoord ndr c)
  | none, .wkb false => none
  | none, _ => some (header f ndr 1 l s ++ wCoord ndr (List.replicate (dimOf l) nanBits))

def encLine (f : Fmt) (ndr : Bool) (l : Layout) (s : Int) (cs : List (List Ord)) : List Byte :=
  header f ndr 2 l s ++ wCoords ndr cs

def encPoly (f : Fmt) (ndr : Bool) (l : Layout) (s : Int) (rings : List (List (List Ord))) :
    List Byte :=
  header f ndr 3 l s ++ w32 ndr rings.length ++ (rings.map (wCoords ndr)).flatten

def allSome {β} : List (Option β) → Option (List β)
  | [] => some []
  | none :: _ => none
  | some x :: r => (allSome r).map (x :: ·)

mutual
/-- `none` = the format cannot express the geometry (layout beyond XYZM, or an empty point in
WKB without the NaN convention). Members of multi geometries carry no SRID of their own. -/
def encode (f : Fmt) (ndr : Bool) : AGeom → Option (List Byte)
  | .point l s c => if !encodable l then none else encPoint f ndr l s c
  | .lineString l s cs => if !encodable l then none else some (encLine f ndr l s cs)
  | .polygon l s rings => if !encodable l then none else some (encPoly f ndr l s rings)
  | .multiPoint l s cs =>
      if !encodable l then none else do
      let ms ← allSome (cs.map (encPoint f ndr l 0))
      some (header f ndr 4 l s ++ w32 ndr cs.length ++ ms.flatten)
  | .multiLineString l s lines =>
      if !encodable l then none else
      some (header f ndr 5 l s ++ w32 ndr lines.length ++ (lines.map (encLine f ndr l 0)).flatten)
  | .multiPolygon l s polys =>
      if !encodable l then none else
      some (header f ndr 6 l s ++ w32 ndr polys.length ++ (polys.map (encPoly f ndr l 0)).flatten)
  | .collection fx s gs =>
      let l := (AGeom.collection fx s gs).dims
      if l ≠ 0 && !encodable l then none else do
      let ms ← encodeAll f ndr gs
      some (header f ndr 7 l s ++ w32 ndr gs.length ++ ms)
def encodeAll (f : Fmt) (ndr : Bool) : List AGeom → Option (List Byte)
  | [] => some []
  | g :: gs => do
      let a ← encode f ndr g
      let b ← encodeAll f ndr gs
      some (a ++ b)
end

def sr (f : Fmt) (s : Int) : Int := match f with | .wkb _ => 0 | .ewkb => s

mutual
/-- What decoding the encoding must give back: the same geometry, except (format carve-outs)
WKB has no SRID; a point whose ordinates are all the canonical NaN is the empty point (EWKB, and
WKB in NaN mode); a collection comes back without fixed layout unless it has no members, in
which case it carries the layout of its type code (XY when it had none). -/
def decoded (f : Fmt) : AGeom → AGeom
  | .point l s c =>
      let c' := match c, f with
        | some c, .wkb false => some c
        | some c, _ => if c.all (· == nanBits) then none else some c
        | none, _ => none
      .point l (sr f s) c'
  | .lineString l s cs => .lineString l (sr f s) cs
  | .polygon l s r => .polygon l (sr f s) r
  | .multiPoint l s cs =>
      .multiPoint l (sr f s) (cs.map fun c => match c, f with
        | some c, .wkb false => some c
        | some c, _ => if c.all (· == nanBits) then none else some c
        | none, _ => none)
  | .multiLineString l s x => .multiLineString l (sr f s) x
  | .multiPolygon l s x => .multiPolygon l (sr f s) x
  | .collection fx s gs =>
      if gs.isEmpty then .collection (if fx = 0 then 1 else fx) (sr f s) []
      else .collection 0 (sr f s) (decodedAll f gs)
def decodedAll (f : Fmt) : List AGeom → List AGeom
  | [] => []
  | g :: gs => decoded f g :: decodedAll f gs
end

end GeomVerif.WkbSpec
