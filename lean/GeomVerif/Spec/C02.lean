/-
C02: histories over {Push, Push(wrong layout), Reverse, Swap, Clone, part accessors,
Num, Coords} on a multi-part geometry.  `Machine` is the interface both the model of
the Go code and the abstract list-of-parts specification implement; `run` executes a
history and returns the observations.
-/
import GeomVerif.Model.Multi
import GeomVerif.Spec.WellFormed

namespace GeomVerif.C02
open GeomVerif

inductive Op (π : Type) where
  | push (l : Layout) (p : π)
  | rev | clone | swap | num | coords
  | fork      -- other := receiver.Clone(): both values live on and are pushed to independently
  | part (i : Nat)
  deriving Repr

inductive Ob (ρ κ : Type) where
  | push (r : Outcome Unit)
  | rev (r : Outcome Unit)
  | unit
  | num (n : Nat)
  | part (r : Outcome ρ)
  | coords (r : Outcome κ)
  deriving Repr, BEq, DecidableEq

structure Machine (σ π ρ κ : Type) where
  init : Layout → σ
  push : σ → Layout → π → Outcome σ
  rev : σ → Outcome σ
  num : σ → Nat
  part : σ → Nat → Outcome ρ
  coords : σ → Outcome κ

variable {σ π ρ κ : Type}

def unitOf {β} : Outcome β → Outcome Unit
  | .ok _ => .ok ()
  | .err e => .err e
  | .panic s => .panic s

/-- One step on the pair (receiver, other value used by Swap). -/
def step (m : Machine σ π ρ κ) (st : σ × σ) : Op π → (σ × σ) × Ob ρ κ
  | .push l p => match m.push st.1 l p with
      | .ok s' => ((s', st.2), .push (.ok ()))
      | .err e => (st, .push (.err e))
      | .panic s => (st, .push (.panic s))
  | .rev => match m.rev st.1 with
      | .ok s' => ((s', st.2), .rev (.ok ()))
      | .err e => (st, .rev (.err e))
      | .panic s => (st, .rev (.panic s))
  | .clone => (st, .unit)
  | .swap => ((st.2, st.1), .unit)
  | .fork => ((st.1, st.1), .unit)
  | .num => (st, .num (m.num st.1))
  | .coords => (st, .coords (m.coords st.1))
  | .part i => (st, .part (m.part st.1 i))

def runFrom (m : Machine σ π ρ κ) (st : σ × σ) : List (Op π) → List (Ob ρ κ)
  | [] => []
  | op :: ops => let (st', ob) := step m st op; ob :: runFrom m st' ops

def run (m : Machine σ π ρ κ) (l : Layout) (ops : List (Op π)) : List (Ob ρ κ) :=
  runFrom m (m.init l, m.init l) ops

/-! ## Part observation: layout, stride, and the part's own nested representation -/

variable {α : Type}

/-! ### Polygon / MultiLineString: parts are coordinate lists -/

def polyModel : Machine (G2 α) (List (List α)) (G1 α) (List (List (List α))) where
  init l := { layout := l, stride := l.stride, flat := [], ends := [] }
  push g l cs := g.push { layout := l, stride := l.stride, flat := cs.flatten }
  rev g := g.reverse
  num g := g.num
  part g i := g.part i
  coords g := Poly.coords g

/-- Abstract state: the layout and the list of pushed parts. -/
structure Parts (π : Type) where
  layout : Layout
  parts : List π
  deriving Repr

def polySpec : Machine (Parts (List (List α))) (List (List α)) (G1 α) (List (List (List α))) where
  init l := ⟨l, []⟩
  push s l cs := if l ≠ s.layout then .err (.layoutMismatch l s.layout)
                 else .ok ⟨s.layout, s.parts ++ [cs]⟩
  rev s := .ok ⟨s.layout, s.parts.map List.reverse⟩
  num s := s.parts.length
  part s i := match s.parts[i]? with
    | some cs => .ok { layout := s.layout, stride := s.layout.stride, flat := cs.flatten }
    | none => .panic "index out of range"
  coords s := .ok s.parts

/-! ### MultiPoint: parts are optional coordinates -/

def mpointModel : Machine (G2 α) (Option (List α)) (G1 α) (List (Option (List α))) where
  init l := { layout := l, stride := l.stride, flat := [], ends := [] }
  push g l c := MPoint.push g { layout := l, stride := l.stride, flat := c.getD [] }
  rev g := g.reverse
  num g := g.num
  part g i := MPoint.point g i
  coords g := MPoint.coords g

def mpointSpec : Machine (Parts (Option (List α))) (Option (List α)) (G1 α)
    (List (Option (List α))) where
  init l := ⟨l, []⟩
  push s l c := if l ≠ s.layout then .err (.layoutMismatch l s.layout)
                else .ok ⟨s.layout, s.parts ++ [c]⟩
  rev s := .ok s        -- a point has one vertex: reversing changes nothing
  num s := s.parts.length
  part s i := match s.parts[i]? with
    | some c => .ok { layout := s.layout, stride := s.layout.stride, flat := c.getD [] }
    | none => .panic "index out of range"
  coords s := .ok s.parts

/-! ### MultiPolygon: parts are polygons (lists of rings) -/

def mpolyModel : Machine (G3 α) (List (List (List α))) (G2 α)
    (List (List (List (List α)))) where
  init l := { layout := l, stride := l.stride, flat := [], endss := [] }
  push g l css := match Poly.setCoords l css with
    | .ok p => g.push p
    | .err e => .err e
    | .panic s => .panic s
  rev g := g.reverse
  num g := g.num
  part g i := g.polygon i
  coords g := MPoly.coords g

def polygonOf (l : Layout) (css : List (List (List α))) : G2 α :=
  { layout := l, stride := l.stride, flat := css.flatten.flatten,
    ends := endsOf 0 css }

def mpolySpec : Machine (Parts (List (List (List α)))) (List (List (List α))) (G2 α)
    (List (List (List (List α)))) where
  init l := ⟨l, []⟩
  push s l css := if l ≠ s.layout then .err (.layoutMismatch l s.layout)
                  else .ok ⟨s.layout, s.parts ++ [css]⟩
  rev s := .ok ⟨s.layout, s.parts.map (·.map List.reverse)⟩
  num s := s.parts.length
  part s i := match s.parts[i]? with
    | some css => .ok (polygonOf s.layout css)
    | none => .panic "index out of range"
  coords s := .ok s.parts

end GeomVerif.C02
