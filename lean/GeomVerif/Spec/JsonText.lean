/-
A strict RFC 8259 JSON text reader (independent of Go's encoding/json), used to read what
the GeoJSON encoder emits: values, objects with keys in document order, number literals kept
as text, strings with all escapes (surrogate pairs combined).  Input must be valid UTF-8.
-/
import GeomVerif.Model.GeoJson

namespace GeomVerif.JsonText
open GeomVerif.GeoJson

abbrev P (α : Type) := List Char → Option (α × List Char)

def skipWs : List Char → List Char
  | c :: cs => if c == ' ' || c == '\n' || c == '\r' || c == '\t' then skipWs cs else c :: cs
  | [] => []

def hexVal (c : Char) : Option Nat :=
  if '0' ≤ c && c ≤ '9' then some (c.toNat - '0'.toNat)
  else if 'a' ≤ c && c ≤ 'f' then some (c.toNat - 'a'.toNat + 10)
  else if 'A' ≤ c && c ≤ 'F' then some (c.toNat - 'A'.toNat + 10)
  else none

def hex4 : List Char → Option (Nat × List Char)
  | a :: b :: c :: d :: rest => do
      let a ← hexVal a; let b ← hexVal b; let c ← hexVal c; let d ← hexVal d
      pure (((a * 16 + b) * 16 + c) * 16 + d, rest)
  | _ => none

/-- Body of a string after the opening quote. -/
def strBody : Nat → List Char → List Char → Option (String × List Char)
  | 0, _, _ => none
  | _, [], _ => none
  | fuel + 1, c :: cs, acc =>
      if c == '"' then some (String.ofList acc.reverse, cs)
      else if c.toNat < 0x20 then none
      else if c == '\\' then
        match cs with
        | '"' :: r => strBody fuel r ('"' :: acc)
        | '\\' :: r => strBody fuel r ('\\' :: acc)
        | '/' :: r => strBody fuel r ('/' :: acc)
        | 'b' :: r => strBody fuel r (Char.ofNat 8 :: acc)
        | 'f' :: r => strBody fuel r (Char.ofNat 12 :: acc)
        | 'n' :: r => strBody fuel r ('\n' :: acc)
        | 'r' :: r => strBody fuel r ('\r' :: acc)
        | 't' :: r => strBody fuel r ('\t' :: acc)
        | 'u' :: r =>
            (match hex4 r with
             | some (u, r') =>
                if 0xD800 ≤ u && u < 0xDC00 then
                  (match r' with
                   | '\\' :: 'u' :: r'' =>
                      (match hex4 r'' with
                       | some (lo, r3) =>
                          if 0xDC00 ≤ lo && lo < 0xE000 then
                            strBody fuel r3 (Char.ofNat (0x10000 + (u - 0xD800) * 0x400 + (lo - 0xDC00)) :: acc)
                          else strBody fuel r' (Char.ofNat 0xFFFD :: acc)
                       | none => none)
                   | _ => strBody fuel r' (Char.ofNat 0xFFFD :: acc))
                else if 0xDC00 ≤ u && u < 0xE000 then strBody fuel r' (Char.ofNat 0xFFFD :: acc)
                else strBody fuel r' (Char.ofNat u :: acc)
             | none => none)
        | _ => none
      else strBody fuel cs (c :: acc)

/-- Number literal: -? (0 | [1-9][0-9]*) (. [0-9]+)? ([eE] [+-]? [0-9]+)? -/
def numLit (cs : List Char) : Option (String × List Char) :=
  let (sign, r) := match cs with | '-' :: r => (['-'], r) | r => ([], r)
  let intPart : Option (List Char × List Char) := match r with
    | '0' :: r' => some (['0'], r')
    | c :: _ => if '1' ≤ c && c ≤ '9' then some (r.takeWhile Char.isDigit, r.dropWhile Char.isDigit) else none
    | [] => none
  match intPart with
  | none => none
  | some (ip, r) =>
    let frac : Option (List Char × List Char) := match r with
      | '.' :: r' =>
          let ds := r'.takeWhile Char.isDigit
          if ds.isEmpty then none else some ('.' :: ds, r'.dropWhile Char.isDigit)
      | _ => some ([], r)
    match frac with
    | none => none
    | some (fp, r) =>
      let exp : Option (List Char × List Char) := match r with
        | e :: r' =>
            if e == 'e' || e == 'E' then
              let (sg, r2) := match r' with
                | '+' :: x => (['+'], x)
                | '-' :: x => (['-'], x)
                | x => ([], x)
              let ds := r2.takeWhile Char.isDigit
              if ds.isEmpty then none else some (e :: sg ++ ds, r2.dropWhile Char.isDigit)
            else some ([], r)
        | [] => some ([], r)
      match exp with
      | none => none
      | some (ep, r) => some (String.ofList (sign ++ ip ++ fp ++ ep), r)

def value : Nat → List Char → Option (J × List Char)
  | 0, _ => none
  | fuel + 1, cs =>
    match skipWs cs with
    | 'n' :: 'u' :: 'l' :: 'l' :: r => some (.null, r)
    | 't' :: 'r' :: 'u' :: 'e' :: r => some (.bool true, r)
    | 'f' :: 'a' :: 'l' :: 's' :: 'e' :: r => some (.bool false, r)
    | '"' :: r => (strBody (r.length + 1) r []).map fun (s, r') => (.str s, r')
    | '[' :: r =>
        (match skipWs r with
         | ']' :: r' => some (.arr [], r')
         | _ => elems fuel r [])
    | '{' :: r =>
        (match skipWs r with
         | '}' :: r' => some (.obj [], r')
         | _ => members fuel r [])
    | cs' => (numLit cs').map fun (s, r) => (.num s, r)
where
  elems : Nat → List Char → List J → Option (J × List Char)
    | 0, _, _ => none
    | fuel + 1, cs, acc =>
        match value fuel cs with
        | none => none
        | some (v, r) =>
            match skipWs r with
            | ',' :: r' => elems fuel r' (v :: acc)
            | ']' :: r' => some (.arr (v :: acc).reverse, r')
            | _ => none
  members : Nat → List Char → List (String × J) → Option (J × List Char)
    | 0, _, _ => none
    | fuel + 1, cs, acc =>
        match skipWs cs with
        | '"' :: r =>
            (match strBody (r.length + 1) r [] with
             | none => none
             | some (k, r1) =>
                match skipWs r1 with
                | ':' :: r2 =>
                    (match value fuel r2 with
                     | none => none
                     | some (v, r3) =>
                        match skipWs r3 with
                        | ',' :: r4 => members fuel r4 ((k, v) :: acc)
                        | '}' :: r4 => some (.obj ((k, v) :: acc).reverse, r4)
                        | _ => none)
                | _ => none)
        | _ => none

/-- A complete JSON text. -/
def parse (bytes : List UInt8) : Option J :=
  match String.fromUTF8? ⟨bytes.toArray⟩ with
  | none => none
  | some s =>
      let cs := s.toList
      match value (cs.length + 1) cs with
      | some (v, rest) => if (skipWs rest).isEmpty then some v else none
      | none => none

end GeomVerif.JsonText
