/-
C11 oracle: the even-odd (crossing number) rule in exact rational arithmetic, written from
its definition: boundary iff the point lies on some edge; otherwise interior iff an odd number
of edges cross the horizontal ray to the right of the point, an edge (a,b) crossing iff exactly
one endpoint is strictly above the ray's line and the exact intersection abscissa exceeds p.x.
-/
import GeomVerif.Spec.Exact
import GeomVerif.Model.Locate

namespace GeomVerif.C11
open GeomVerif.Locate

abbrev Pt := Rat × Rat

def cross (a b p : Pt) : Rat := (b.1 - a.1) * (p.2 - a.2) - (b.2 - a.2) * (p.1 - a.1)

def between (lo hi x : Rat) : Bool := (min lo hi ≤ x) && (x ≤ max lo hi)

/-- p lies on the closed segment [a,b] (degenerate segments included). -/
def onSegment (a b p : Pt) : Bool :=
  cross a b p == 0 && between a.1 b.1 p.1 && between a.2 b.2 p.2

def edges {β : Type} : List β → List (β × β)
  | a :: b :: rest => (a, b) :: edges (b :: rest)
  | _ => []

def crossesRay (p : Pt) (e : Pt × Pt) : Bool :=
  let a := e.1; let b := e.2
  if (a.2 > p.2) != (b.2 > p.2) then
    -- exact abscissa of the intersection with y = p.y
    let x := a.1 + (p.2 - a.2) * (b.1 - a.1) / (b.2 - a.2)
    x > p.1
  else false

def locate (p : Pt) (ring : List Pt) : Loc :=
  let es := edges ring
  if es.any (fun e => onSegment e.1 e.2 p) then .boundary
  else if (es.filter (crossesRay p)).length % 2 = 1 then .interior
  else .exterior

def onLine (p : Pt) (line : List Pt) : Bool := (edges line).any fun e => onSegment e.1 e.2 p

end GeomVerif.C11
