/-
Exact rational reference arithmetic shared by the numeric oracles: decoding an
IEEE-754 binary64 bit pattern to its exact rational value, rational square-root
brackets.  Core Lean only.
-/
import GeomVerif.Basic

namespace GeomVerif.Exact

/-- Exact value of a finite float64 bit pattern; `none` for NaN / ±Inf. -/
def ofBits (b : UInt64) : Option Rat :=
  let n : Nat := b.toNat
  let neg := n / 2^63 == 1
  let e : Nat := (n / 2^52) % 2048
  let m : Nat := n % 2^52
  if e == 2047 then none
  else
    let mant : Nat := if e == 0 then m else m + 2^52
    let exp : Int := if e == 0 then -1074 else (e : Int) - 1075
    let mag : Rat := if exp ≥ 0 then ((mant * 2^exp.toNat : Nat) : Rat) else mkRat mant (2^(-exp).toNat)
    some (if neg then -mag else mag)

def abs (r : Rat) : Rat := if r < 0 then -r else r

/-- Rational bracket `lo ≤ sqrt q ≤ hi` with `hi - lo ≤ 2^-k / den`-ish precision. -/
def sqrtBracket (q : Rat) (k : Nat := 128) : Rat × Rat :=
  if q ≤ 0 then (0, 0)
  else
    let a := q.num.toNat
    let b := q.den
    -- sqrt(a/b) = sqrt(a*b)/b ; scale by 4^k for precision
    let s := Nat.sqrt (a * b * 4^k)
    (mkRat s (b * 2^k), mkRat (s + 1) (b * 2^k))

def two52 : Rat := mkRat 1 (2^52)

end GeomVerif.Exact
