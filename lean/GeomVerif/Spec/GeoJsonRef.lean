/-
Independent reading of RFC 7946 geometry objects (§3.1): "type" names one of the seven
geometry types, "coordinates" is a position / array of positions / … of numbers, a
GeometryCollection has "geometries".  The reader knows nothing about layouts: it returns the
type, the nesting and the numbers.  Plus the expected result of a round trip through the
library, with the format's carve-outs explicit.
-/
import GeomVerif.Model.GeoJson
import GeomVerif.Spec.WkbSpec
import GeomVerif.Spec.WktRef

namespace GeomVerif.GeoJsonRef
open GeomVerif GeomVerif.Wkb GeomVerif.WkbSpec GeomVerif.GeoJson

/-- Nested numbers. -/
inductive NT where
  | num (v : Ord)
  | null
  | arr (xs : List NT)
  deriving Repr, BEq, Inhabited

inductive RG where
  | geom (type : String) (coords : NT)
  | coll (members : List RG)
  deriving Repr, BEq, Inhabited

def ntOf (parse : Parse) : Nat → J → Option NT
  | 0, _ => none
  | _, .num s => (parse s.toList).map .num
  | _, .null => some .null
  | fuel + 1, .arr xs => (xs.mapM (ntOf parse fuel)).map .arr
  | _, _ => none

def lookup (kvs : List (String × J)) (k : String) : Option J := (kvs.find? (·.1 == k)).map (·.2)

def geomTypes : List String :=
  ["Point", "LineString", "Polygon", "MultiPoint", "MultiLineString", "MultiPolygon"]

def readGeometry (parse : Parse) : Nat → J → Option RG
  | 0, _ => none
  | fuel + 1, .obj kvs =>
      match lookup kvs "type" with
      | some (.str "GeometryCollection") =>
          (match lookup kvs "geometries" with
           | some (.arr xs) => (xs.mapM (readGeometry parse fuel)).map .coll
           | _ => none)
      | some (.str t) =>
          if geomTypes.contains t then
            match lookup kvs "coordinates" with
            | some c => (ntOf parse (fuel + 8) c).map (.geom t)
            | none => none
          else none
      | _ => none
  | _, _ => none

/-! ## What the original geometry looks like to such a reader -/

def ntCoord (c : List Ord) : NT := .arr (c.map .num)
def ntCoords1 (cs : List (List Ord)) : NT := .arr (cs.map ntCoord)
def ntCoords2 (x : List (List (List Ord))) : NT := .arr (x.map ntCoords1)

def rgOf : Nat → AGeom → RG
  | _, .point _ _ c => .geom "Point" (match c with | some c => ntCoord c | none => .arr [])
  | _, .lineString _ _ cs => .geom "LineString" (ntCoords1 cs)
  | _, .polygon _ _ r => .geom "Polygon" (ntCoords2 r)
  | _, .multiPoint _ _ cs =>
      .geom "MultiPoint" (.arr (cs.map fun c => match c with | some c => ntCoord c | none => .null))
  | _, .multiLineString _ _ x => .geom "MultiLineString" (ntCoords2 x)
  | _, .multiPolygon _ _ x => .geom "MultiPolygon" (.arr (x.map ntCoords2))
  | 0, .collection .. => .coll []
  | fuel + 1, .collection _ _ gs => .coll (gs.map (rgOf fuel))

/-! ## Expected result of Marshal ∘ Unmarshal -/

def hasCoords : Nat → AGeom → Bool
  | _, .point _ _ c => c.isSome
  | _, .lineString _ _ cs => !cs.isEmpty
  | _, .polygon _ _ r => !r.flatten.isEmpty
  | _, .multiPoint _ _ cs => cs.any (·.isSome)
  | _, .multiLineString _ _ x => !x.flatten.isEmpty
  | _, .multiPolygon _ _ x => !x.flatten.flatten.isEmpty
  | 0, .collection .. => false
  | fuel + 1, .collection _ _ gs => gs.any (hasCoords fuel)

/-- XYM is not representable (comes back XYZ); a geometry without coordinates comes back with
the default layout `dl` (geojson.DefaultLayout, XY unless the caller sets it). -/
def backLayout (dl : Layout) (l : Layout) (nonEmpty : Bool) : Layout := if !nonEmpty then dl else if l == 3 then 2 else l

def expected (dl : Layout) : Nat → AGeom → AGeom
  | _, .point l _ c => .point (backLayout dl l c.isSome) 0 c
  | _, .lineString l _ cs => .lineString (backLayout dl l (!cs.isEmpty)) 0 cs
  | _, .polygon l _ r => .polygon (backLayout dl l (!r.flatten.isEmpty)) 0 r
  | _, .multiPoint l _ cs => .multiPoint (backLayout dl l (cs.any (·.isSome))) 0 cs
  | _, .multiLineString l _ x => .multiLineString (backLayout dl l (!x.flatten.isEmpty)) 0 x
  | _, .multiPolygon l _ x => .multiPolygon (backLayout dl l (!x.flatten.flatten.isEmpty)) 0 x
  | 0, g => g
  | fuel + 1, .collection _ _ gs => .collection 0 0 (gs.map (expected dl fuel))

/-- Format limits under which reading back may fail: the layout is inferred from the first
position, so a non-XY geometry whose first component is empty, or a MultiPoint with an empty
member, need not come back. -/
def carveOut (dl : Layout) : Nat → AGeom → Bool
  | _, .point .. => false
  | _, .lineString .. => false
  | _, .polygon l _ r => l != dl && (r.head?.map (·.isEmpty)).getD false && !r.flatten.isEmpty
  | _, .multiPoint _ _ cs => cs.any (·.isNone)
  | _, .multiLineString l _ x => l != dl && (x.head?.map (·.isEmpty)).getD false && !x.flatten.isEmpty
  | _, .multiPolygon l _ x =>
      l != dl && !x.flatten.flatten.isEmpty &&
        ((x.head?.map (·.isEmpty)).getD false || ((x.head?.bind (·.head?)).map (·.isEmpty)).getD false)
  | 0, _ => false
  | fuel + 1, .collection _ _ gs => gs.any (carveOut dl fuel)

def depthA : Nat → AGeom → Nat
  | fuel + 1, .collection _ _ gs => 1 + (gs.map (depthA fuel)).foldl max 0
  | _, _ => 1

end GeomVerif.GeoJsonRef
