/-
C14 oracle in exact rational arithmetic, from the textbook definitions: mean of points;
length-weighted mean of segment midpoints (lengths bracketed to 2^-128 relative);
area-weighted centroid Σ(xᵢ+xᵢ₊₁)·crossᵢ / (6A) per ring, holes subtracted, independent of
ring direction; zero total area → the length-weighted centroid; ring direction = sign of the
exact shoelace area; SignedArea = −(shoelace area) (clockwise positive).
-/
import GeomVerif.Spec.Exact

namespace GeomVerif.C14
open GeomVerif.Exact

abbrev Pt := Rat × Rat

def pairs {β : Type} : List β → List (β × β)
  | a :: b :: r => (a, b) :: pairs (b :: r)
  | _ => []

def mean (ps : List Pt) : Pt :=
  let n : Rat := ps.length
  ((ps.map (·.1)).foldl (· + ·) 0 / n, (ps.map (·.2)).foldl (· + ·) 0 / n)

/-- (Σ len·mid_x, Σ len·mid_y, Σ len) with lengths from the lower sqrt bracket. -/
def lineMoments (lines : List (List Pt)) : Rat × Rat × Rat :=
  (lines.map pairs).flatten.foldl (fun acc s =>
    let d2 := (s.2.1 - s.1.1) * (s.2.1 - s.1.1) + (s.2.2 - s.1.2) * (s.2.2 - s.1.2)
    let len := (sqrtBracket d2).1
    (acc.1 + len * (s.1.1 + s.2.1) / 2, acc.2.1 + len * (s.1.2 + s.2.2) / 2, acc.2.2 + len)) (0, 0, 0)

def lineCentroid (lines : List (List Pt)) : Option Pt :=
  let m := lineMoments lines
  if m.2.2 == 0 then none else some (m.1 / m.2.2, m.2.1 / m.2.2)

/-- Twice the signed area (counter-clockwise positive) of a closed ring. -/
def area2 (ring : List Pt) : Rat :=
  (pairs ring).foldl (fun acc s => acc + (s.1.1 * s.2.2 - s.2.1 * s.1.2)) 0

/-- Six times the first moments of a closed ring w.r.t. its own orientation. -/
def moments6 (ring : List Pt) : Rat × Rat :=
  (pairs ring).foldl (fun acc s =>
    let c := s.1.1 * s.2.2 - s.2.1 * s.1.2
    (acc.1 + (s.1.1 + s.2.1) * c, acc.2 + (s.1.2 + s.2.2) * c)) (0, 0)

/-- Area-weighted centroid of polygons (shell first, then holes), direction-independent. -/
def areaCentroid (polys : List (List (List Pt))) : Option Pt :=
  let contrib (ring : List Pt) (hole : Bool) : Rat × Rat × Rat :=
    let a := area2 ring
    let m := moments6 ring
    -- orient the ring counter-clockwise, then negate for holes
    let s : Rat := (if a < 0 then -1 else 1) * (if hole then -1 else 1)
    (s * m.1, s * m.2, s * a)
  let tot := polys.foldl (fun acc poly =>
    match poly with
    | [] => acc
    | shell :: holes =>
        (shell, false) :: holes.map (·, true) |>.foldl (fun acc rh =>
          let c := contrib rh.1 rh.2
          (acc.1 + c.1, acc.2.1 + c.2.1, acc.2.2 + c.2.2)) acc) (0, 0, 0)
  if tot.2.2 == 0 then lineCentroid polys.flatten
  else some (tot.1 / (3 * tot.2.2), tot.2.1 / (3 * tot.2.2))

def scaleOf (ps : List Pt) : Rat := ps.foldl (fun m p => max m (max (abs p.1) (abs p.2))) 1

def closePt (g want : Pt) (scale : Rat) : Bool :=
  let tol := scale * mkRat 1 1000000000
  abs (g.1 - want.1) ≤ tol && abs (g.2 - want.2) ≤ tol

end GeomVerif.C14
