/-
C01 oracle: what the property demands of one "set nested coordinates, read them
back" observation, as a Bool the driver evaluates on what Go returned and the
theorems prove of the model.
-/
import GeomVerif.Model.Flat
import GeomVerif.Spec.WellFormed

namespace GeomVerif.C01
open GeomVerif
variable {α : Type}

/-- Observation of `New<T>(l).SetCoords(cs)` followed by `Coords()`. -/
abbrev Obs (γ κ : Type) := Outcome (γ × Outcome κ)

def isStrideErr {β} : Outcome β → Bool
  | .err (.strideMismatch _ _) => true
  | _ => false

def bad (s : Nat) (c : List α) : Bool := c.length != s

/-- Model runs. -/
def runPoint (l : Layout) (c : List α) : Obs (G1 α) (List α) :=
  (Point.setCoords l c).map fun g => (g, Point.coords g)

def runLine (l : Layout) (cs : List (List α)) : Obs (G1 α) (List (List α)) :=
  (Line.setCoords l cs).map fun g => (g, Line.coords g)

def runPoly (l : Layout) (cs : List (List (List α))) : Obs (G2 α) (List (List (List α))) :=
  (Poly.setCoords l cs).map fun g => (g, Poly.coords g)

def runMPoly (l : Layout) (cs : List (List (List (List α)))) :
    Obs (G3 α) (List (List (List (List α)))) :=
  (MPoly.setCoords l cs).map fun g => (g, MPoly.coords g)

def runMPoint (l : Layout) (cs : List (Option (List α))) :
    Obs (G2 α) (List (Option (List α))) :=
  (MPoint.setCoords l cs).map fun g => (g, MPoint.coords g)

section holds
variable [BEq α]

/-- Read-back requirement: exact nested equality; for NoLayout (stride 0) the only
inputs in the property's domain carry no leaf coordinate, so nothing is required of
inputs that do. -/
def readBackOK {κ} [BEq κ] (stride : Nat) (hasLeaf : Bool) (want : κ) (got : Outcome κ) : Bool :=
  if stride = 0 && hasLeaf then !got.isPanic
  else match got with
    | .ok v => v == want
    | _ => false

def holdsPoint (l : Layout) (c : List α) (o : Obs (G1 α) (List α)) : Bool :=
  if bad l.stride c then isStrideErr o
  else match o with
    | .ok (g, rb) => g.wellFormedPoint && g.layout == l && readBackOK l.stride false c rb
    | _ => false

def holdsLine (l : Layout) (cs : List (List α)) (o : Obs (G1 α) (List (List α))) : Bool :=
  if cs.any (bad l.stride) then isStrideErr o
  else match o with
    | .ok (g, rb) => g.wellFormed && g.layout == l && readBackOK l.stride (!cs.isEmpty) cs rb
    | _ => false

def holdsPoly (l : Layout) (cs : List (List (List α)))
    (o : Obs (G2 α) (List (List (List α)))) : Bool :=
  if cs.flatten.any (bad l.stride) then isStrideErr o
  else match o with
    | .ok (g, rb) =>
        g.wellFormed && g.layout == l && readBackOK l.stride (!cs.flatten.isEmpty) cs rb
    | _ => false

def holdsMPoly (l : Layout) (cs : List (List (List (List α))))
    (o : Obs (G3 α) (List (List (List (List α))))) : Bool :=
  if cs.flatten.flatten.any (bad l.stride) then isStrideErr o
  else match o with
    | .ok (g, rb) =>
        g.wellFormed && g.layout == l && readBackOK l.stride (!cs.flatten.flatten.isEmpty) cs rb
    | _ => false

def someLeaves : List (Option (List α)) → List (List α)
  | [] => []
  | none :: r => someLeaves r
  | some c :: r => c :: someLeaves r

def holdsMPoint (l : Layout) (cs : List (Option (List α)))
    (o : Obs (G2 α) (List (Option (List α)))) : Bool :=
  if (someLeaves cs).any (bad l.stride) then isStrideErr o
  else match o with
    | .ok (g, rb) =>
        g.wellFormed && mpointEndsOK g.stride g.ends 0 && g.layout == l &&
          readBackOK l.stride (!(someLeaves cs).isEmpty) cs rb
    | _ => false
end holds

end GeomVerif.C01
