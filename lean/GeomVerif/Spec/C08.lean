/-
C08 oracle, written from the property statement and not from the code: every
coordinate is placed in the four semantic dimensions X, Y, Z, M according to its own
layout; the expected box has the join of the layouts and, per dimension, the
minimum / maximum over every coordinate that has that dimension.
-/
import GeomVerif.Model.Bounds

namespace GeomVerif.C08
open GeomVerif
variable {α : Type}

/-- (hasZ, hasM) of layouts 0..4. -/
def hasZ (l : Layout) : Bool := l == 2 || l == 4
def hasM (l : Layout) : Bool := l == 3 || l == 4
def ofZM (any z m : Bool) : Layout :=
  if z && m then 4 else if z then 2 else if m then 3 else if any then 1 else 0

/-- Least layout covering both (on 0..4). -/
def join (a b : Layout) : Layout :=
  ofZM (a != 0 || b != 0) (hasZ a || hasZ b) (hasM a || hasM b)

/-- A coordinate in X,Y,Z,M space. -/
def canon4 (l : Layout) (c : List α) : List (Option α) :=
  match l, c with
  | 1, [x, y] => [some x, some y, none, none]
  | 2, [x, y, z] => [some x, some y, some z, none]
  | 3, [x, y, m] => [some x, some y, none, some m]
  | 4, [x, y, z, m] => [some x, some y, some z, some m]
  | _, _ => [none, none, none, none]

def chunksOf (s : Nat) (xs : List α) : List (List α) :=
  if s = 0 then [] else chunkN s (xs.length / s) xs

mutual
/-- All coordinates of a geometry tree in X,Y,Z,M space. -/
def points : BGeom α → List (List (Option α))
  | .flat l s c => (chunksOf s c).map (canon4 l)
  | .coll _ gs => pointsL gs
def pointsL : List (BGeom α) → List (List (Option α))
  | [] => []
  | g :: gs => points g ++ pointsL gs
end

mutual
/-- Join of every layout occurring in the tree (leaf layouts and fixed collection layouts). -/
def layouts : BGeom α → Layout
  | .flat l _ _ => l
  | .coll f gs => join f (layoutsL gs)
def layoutsL : List (BGeom α) → Layout
  | [] => 0
  | g :: gs => join (layouts g) (layoutsL gs)
end

def dimMin (o : OrdOps α) (pts : List (List (Option α))) (d : Nat) : α :=
  pts.foldl (fun acc p => match p[d]? with
    | some (some v) => o.min acc v
    | _ => acc) o.top
def dimMax (o : OrdOps α) (pts : List (List (Option α))) (d : Nat) : α :=
  pts.foldl (fun acc p => match p[d]? with
    | some (some v) => o.max acc v
    | _ => acc) o.bot

/-- Semantic dimensions stored in the slots of a box of layout `L` (0..4). -/
def slotDims : Layout → List Nat
  | 1 => [0, 1]
  | 2 => [0, 1, 2]
  | 3 => [0, 1, 3]
  | 4 => [0, 1, 2, 3]
  | _ => []

/-- Expected box after extending an empty box of layout `l0` with the geometries. -/
def expected (o : OrdOps α) (l0 : Layout) (gs : List (BGeom α)) : Bounds α :=
  let L := join l0 (layoutsL gs)
  let pts := pointsL gs
  ⟨L, (slotDims L).map (dimMin o pts), (slotDims L).map (dimMax o pts)⟩

/-- Expected box of one flat geometry of any layout (dimensions by index). -/
def expectedFlat (o : OrdOps α) (l : Layout) (stride : Nat) (c : List α) : Bounds α :=
  let cs := chunksOf stride c
  ⟨l, (List.range l.stride).map (fun j => cs.foldl (fun acc p => match p[j]? with
        | some v => o.min acc v
        | none => acc) o.top),
      (List.range l.stride).map (fun j => cs.foldl (fun acc p => match p[j]? with
        | some v => o.max acc v
        | none => acc) o.bot)⟩

/-- Closed-interval arithmetic: in every dimension the intersection
[max lo lo', min hi hi'] is non-empty. -/
def intervalsMeet (o : OrdOps α) : Nat → List α → List α → List α → List α → Bool
  | 0, _, _, _, _ => true
  | n + 1, mn :: mns, mx :: mxs, mn2 :: mn2s, mx2 :: mx2s =>
      !(o.lt (o.min mx mx2) (o.max mn mn2)) && intervalsMeet o n mns mxs mn2s mx2s
  | _ + 1, _, _, _, _ => false

end GeomVerif.C08
