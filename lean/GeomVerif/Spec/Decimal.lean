/-
Exact decimal formatting: the contract of strconv.FormatFloat(x, 'f', d, 64) for d ≥ 0
(round the exact binary value to d decimals, ties to even, keep the sign) written with integer
arithmetic, the trailing-zero trimming of the encoders, and a scanner that reads a decimal
numeral back as an exact rational.  Core Lean only.
-/
import GeomVerif.Spec.Exact

namespace GeomVerif.Decimal

/-- Nearest integer to N/D (D > 0), ties to even. -/
def roundHalfEven (N D : Int) : Int :=
  let a := 2 * N + D
  let b := 2 * D
  let n := a / b          -- floor, since b > 0
  if a % b = 0 ∧ n % 2 ≠ 0 then n - 1 else n

/-- Sign and magnitude (num/den) of a finite float64. -/
def signMag (bits : UInt64) : Option (Bool × Nat × Nat) :=
  match Exact.ofBits bits with
  | some r => some (bits.toNat / 2^63 == 1, r.num.natAbs, r.den)
  | none => none

def padLeft (w : Nat) (s : String) : String := String.ofList (List.replicate (w - s.length) '0') ++ s

/-- FormatFloat(x, 'f', d, 64) for finite x. -/
def formatFixed (neg : Bool) (num den : Nat) (d : Nat) : String :=
  let n := (roundHalfEven ((num : Int) * 10 ^ d) (den : Int)).toNat
  let ip := n / 10 ^ d
  let fp := n % 10 ^ d
  (if neg then "-" else "") ++ toString ip ++ (if d = 0 then "" else "." ++ padLeft d (toString fp))

def trimRight (c : Char) (s : List Char) : List Char :=
  (s.reverse.dropWhile (· == c)).reverse

/-- strings.TrimRight(strings.TrimRight(s, "0"), ".") -/
def trimZeros (s : String) : String := String.ofList (trimRight '.' (trimRight '0' s.toList))

/-- The number text the encoders emit with a maximum of `d` decimal digits. -/
def formatMax (neg : Bool) (num den : Nat) (d : Nat) : String :=
  let s := formatFixed neg num den d
  if d > 0 then trimZeros s else s

/-- Read `[-]digits[.digits]` as an exact rational and the number of fractional digits. -/
def scan (s : String) : Option (Rat × Nat × Bool) :=   -- value, fractional digits, has trailing zero after '.'
  let cs := s.toList
  let (neg, cs) := match cs with
    | '-' :: r => (true, r)
    | r => (false, r)
  let ip := cs.takeWhile Char.isDigit
  let rest := cs.dropWhile Char.isDigit
  if ip.isEmpty then none else
  let digitsVal (ds : List Char) : Nat := ds.foldl (fun a c => a * 10 + (c.toNat - '0'.toNat)) 0
  match rest with
  | [] => some ((if neg then -1 else 1) * (digitsVal ip : Rat), 0, false)
  | '.' :: fr =>
      if fr.isEmpty || !fr.all Char.isDigit then none
      else
        let v : Rat := (digitsVal ip : Rat) + mkRat (digitsVal fr) (10 ^ fr.length)
        some ((if neg then -1 else 1) * v, fr.length, fr.getLast? == some '0')
  | _ => none

end GeomVerif.Decimal
