/-
C02 for GeometryCollection: histories over {Push(g₁,…,gₖ) (variadic), SetLayout, Layout,
NumGeoms, Geom(i), Geoms}, interleaved with the caller growing a nested member it still holds
(`grow`: members are shared, not copied, so the member's layout as the collection sees it through
`Layout()` changes).  Members are opaque values carrying a layout.  `Coll.model` follows
geometrycollection.go (the check loop, then one append; CheckLayout's loop and its Got/Want
order; Layout()'s promotion fold); `Coll.spec` is the list-of-parts reading of the property:
a Push either appends all its arguments in order or — when the collection has a fixed layout and
some argument has another — fails with a layout-mismatch error and changes nothing.
-/
import GeomVerif.Model.Flat

namespace GeomVerif.C02.Coll
open GeomVerif

/-- A member: its layout and an opaque payload (the harness uses the flat coordinates). -/
structure Member (π : Type) where
  layout : Layout
  payload : π
  deriving Repr, BEq, DecidableEq

structure State (π : Type) where
  fixed : Layout            -- g.layout (0 = NoLayout: not fixed)
  geoms : List (Member π)
  deriving Repr, BEq, DecidableEq

inductive Op (π : Type) where
  | push (gs : List (Member π))
  | setLayout (l : Layout)
  | layout | num | geoms
  | geom (i : Nat)
  /-- not a call on the collection: the caller, who still holds the i-th member (a nested
  collection), pushes a part of layout `l` into it — the member's own layout becomes the cover -/
  | grow (i : Nat) (l : Layout)
  deriving Repr

def Op.isGrow {π : Type} : Op π → Bool
  | .grow .. => true
  | _ => false

inductive Ob (π : Type) where
  | res (r : Outcome Unit)
  | layout (l : Layout)
  | num (n : Nat)
  | geom (r : Outcome (Member π))
  | geoms (gs : List (Member π))
  deriving Repr, BEq, DecidableEq

variable {π : Type}

/-! ### Model of the code -/

/-- `for _, geom := range gs { if geom.Layout() != want { return ErrLayoutMismatch{Got: geom.Layout(), Want: want} } }` -/
def pushCheck (want : Layout) : List (Member π) → Option Err
  | [] => none
  | g :: gs => if g.layout ≠ want then some (.layoutMismatch g.layout want) else pushCheck want gs

/-- CheckLayout: note Got is the requested layout and Want the member's. -/
def checkLayout (l : Layout) : List (Member π) → Option Err
  | [] => none
  | g :: gs => if g.layout ≠ l then some (.layoutMismatch l g.layout) else checkLayout l gs

def modelPush (s : State π) (gs : List (Member π)) : Outcome (State π) :=
  if s.fixed ≠ 0 then
    match pushCheck s.fixed gs with
    | some e => .err e
    | none => .ok { s with geoms := s.geoms ++ gs }
  else .ok { s with geoms := s.geoms ++ gs }

def modelSetLayout (s : State π) (l : Layout) : Outcome (State π) :=
  if l ≠ 0 then
    match checkLayout l s.geoms with
    | some e => .err e
    | none => .ok { s with fixed := l }
  else .ok { s with fixed := l }

/-- The promotion step of Layout(): XYZ (2) and XYM (3) combine to XYZM (4), otherwise the maximum. -/
def promote (mx l : Layout) : Layout :=
  if l = 2 then (if mx = 3 then 4 else if l > mx then l else mx)
  else if l = 3 then (if mx = 2 then 4 else if l > mx then l else mx)
  else if l > mx then l else mx

/-- What the caller's push into the i-th member does to the collection's view of it. -/
def growAt : List (Member π) → Nat → Layout → List (Member π)
  | [], _, _ => []
  | m :: ms, 0, l => { m with layout := promote m.layout l } :: ms
  | m :: ms, i + 1, l => m :: growAt ms i l

def modelLayout (s : State π) : Layout :=
  if s.fixed ≠ 0 then s.fixed else s.geoms.foldl (fun mx g => promote mx g.layout) 0

def modelGeom (s : State π) (i : Nat) : Outcome (Member π) :=
  match s.geoms[i]? with
  | some g => .ok g
  | none => .panic "index out of range"

def unitOf {β} : Outcome β → Outcome Unit
  | .ok _ => .ok ()
  | .err e => .err e
  | .panic s => .panic s

structure Machine (π : Type) where
  push : State π → List (Member π) → Outcome (State π)
  setLayout : State π → Layout → Outcome (State π)
  layout : State π → Layout
  geom : State π → Nat → Outcome (Member π)

def model : Machine π := ⟨modelPush, modelSetLayout, modelLayout, modelGeom⟩

/-! ### Specification -/

def specPush (s : State π) (gs : List (Member π)) : Outcome (State π) :=
  match (if s.fixed = 0 then none else gs.find? (fun g => g.layout != s.fixed)) with
  | some g => .err (.layoutMismatch g.layout s.fixed)     -- nothing is appended
  | none => .ok ⟨s.fixed, s.geoms ++ gs⟩                   -- all arguments, in order

def specSetLayout (s : State π) (l : Layout) : Outcome (State π) :=
  match (if l = 0 then none else s.geoms.find? (fun g => g.layout != l)) with
  | some g => .err (.layoutMismatch l g.layout)
  | none => .ok ⟨l, s.geoms⟩

/-- Smallest of NoLayout/XY/XYZ/XYM/XYZM/Layout(n) covering all members: has Z iff some member
has Z, M iff some has M (for the four named layouts); otherwise the numerically largest. -/
def specLayout (s : State π) : Layout :=
  if s.fixed ≠ 0 then s.fixed else s.geoms.foldl (fun mx g => promote mx g.layout) 0

def spec : Machine π := ⟨specPush, specSetLayout, specLayout, modelGeom⟩

/-! ### Histories -/

def step (m : Machine π) (s : State π) : Op π → State π × Ob π
  | .push gs => match m.push s gs with
      | .ok s' => (s', .res (.ok ()))
      | .err e => (s, .res (.err e))
      | .panic p => (s, .res (.panic p))
  | .setLayout l => match m.setLayout s l with
      | .ok s' => (s', .res (.ok ()))
      | .err e => (s, .res (.err e))
      | .panic p => (s, .res (.panic p))
  | .layout => (s, .layout (m.layout s))
  | .num => (s, .num s.geoms.length)
  | .geoms => (s, .geoms s.geoms)
  | .geom i => (s, .geom (m.geom s i))
  | .grow i l => ({ s with geoms := growAt s.geoms i l }, .res (.ok ()))

def runFrom (m : Machine π) (s : State π) : List (Op π) → List (Ob π) × State π
  | [] => ([], s)
  | op :: ops =>
    let (s', ob) := step m s op
    let (obs, sf) := runFrom m s' ops
    (ob :: obs, sf)

def run (m : Machine π) (ops : List (Op π)) : List (Ob π) := (runFrom m ⟨0, []⟩ ops).1

end GeomVerif.C02.Coll
