/-
Reference for strconv.ParseFloat(s, 64) on the strings the WKT lexer can hand it (runs over
the characters `-+.eE0-9`): Go's readFloat grammar, the exact decimal value as a fraction, and
IEEE-754 binary64 round-to-nearest-even with overflow = error (ErrRange) and underflow = ±0.
Assumed of the Go runtime (trusted base): ParseFloat is correctly rounded.  Not modelled: the
800-significant-digit truncation of strconv's slow path (only reachable with a halfway case
longer than 800 digits).
-/
namespace GeomVerif.ParseFloat

def digitVal (c : Char) : Nat := c.toNat - '0'.toNat

/-- sign, all mantissa digits as a number, decimal exponent (value = mant·10^exp). -/
structure Dec where
  neg : Bool
  mant : Nat
  exp : Int
  deriving Repr, BEq

/-- The mantissa part: digits with at most one '.', stops at the first other character (or a
second '.').  Returns (mantissa, digits after the point, saw a digit, rest). -/
def readMant : List Char → Nat → Nat → Bool → Bool → Nat × Nat × Bool × List Char
  | [], m, fr, _, sawDigit => (m, fr, sawDigit, [])
  | c :: cs, m, fr, sawDot, sawDigit =>
      if c == '.' then
        if sawDot then (m, fr, sawDigit, c :: cs) else readMant cs m fr true sawDigit
      else if c.isDigit then readMant cs (m * 10 + digitVal c) (if sawDot then fr + 1 else fr) sawDot true
      else (m, fr, sawDigit, c :: cs)

/-- Exponent digits with Go's saturation `if e < 10000 { e = e*10 + d }`. -/
def readExp : List Char → Nat → Nat × List Char
  | [], e => (e, [])
  | c :: cs, e => if c.isDigit then readExp cs (if e < 10000 then e * 10 + digitVal c else e) else (e, c :: cs)

def readDecimal (s : List Char) : Option Dec :=
  let (neg, s) := match s with
    | '+' :: r => (false, r)
    | '-' :: r => (true, r)
    | r => (false, r)
  let (m, fr, sawDigit, rest) := readMant s 0 0 false false
  if !sawDigit then none else
  match rest with
  | [] => some ⟨neg, m, -(fr : Int)⟩
  | c :: r =>
      if c == 'e' || c == 'E' then
        let (eneg, r) := match r with
          | '+' :: r' => (false, r')
          | '-' :: r' => (true, r')
          | r' => (false, r')
        match r with
        | [] => none
        | d :: _ =>
            if !d.isDigit then none else
            let (e, rest') := readExp r 0
            if !rest'.isEmpty then none
            else some ⟨neg, m, (if eneg then -(e : Int) else (e : Int)) - (fr : Int)⟩
      else none

/-- Round-half-even of N / D for naturals. -/
def rne (N D : Nat) : Nat :=
  let q := N / D; let r := N % D
  if 2 * r < D then q else if 2 * r > D then q + 1 else if q % 2 == 0 then q else q + 1

/-- N/D scaled by 2^(-e). -/
def scaled (num den : Nat) (e : Int) : Nat × Nat :=
  if e ≥ 0 then (num, den * 2 ^ e.toNat) else (num * 2 ^ (-e).toNat, den)

/-- Nearest binary64 to ±num/den (ties to even); `none` when it rounds beyond the largest finite
value. -/
def roundToBits (neg : Bool) (num den : Nat) : Option UInt64 :=
  let sign : UInt64 := if neg then 0x8000000000000000 else 0
  if num == 0 || den == 0 then some sign else
  -- e with 2^52 ≤ (num/den)/2^e < 2^53
  let e0 : Int := (Nat.log2 num : Int) - (Nat.log2 den : Int) - 52
  let fits (e : Int) : Bool :=
    let (N, D) := scaled num den e
    decide (2 ^ 52 * D ≤ N) && decide (N < 2 ^ 53 * D)
  let e : Int := if fits e0 then e0 else if fits (e0 - 1) then e0 - 1 else if fits (e0 + 1) then e0 + 1
                 else if fits (e0 - 2) then e0 - 2 else e0 + 2
  let e := if e < -1074 then -1074 else e
  let (N, D) := scaled num den e
  let m := rne N D
  let (m, e) := if m == 2 ^ 53 then (2 ^ 52, e + 1) else (m, e)
  let bitsNat : Int := (e + 1074) * (2 ^ 52 : Int) + m
  if bitsNat ≥ (0x7FF0000000000000 : Int) then none
  else some (sign + UInt64.ofNat bitsNat.toNat)

def parseFloat (s : List Char) : Option UInt64 :=
  match readDecimal s with
  | none => none
  | some d =>
      if d.mant == 0 then some (if d.neg then 0x8000000000000000 else 0)
      else if d.exp > 400 then none                    -- ≥ 10^400: overflow whatever the mantissa
      else if d.exp < -100000 then some (if d.neg then 0x8000000000000000 else 0)
      else if d.exp ≥ 0 then roundToBits d.neg (d.mant * 10 ^ d.exp.toNat) 1
      else
        -- far below the smallest subnormal: zero (avoid huge powers)
        let digits := (Nat.log2 d.mant) / 3 + 1     -- ≥ number of decimal digits
        if (d.exp : Int) + digits < -400 then some (if d.neg then 0x8000000000000000 else 0)
        else roundToBits d.neg d.mant (10 ^ (-d.exp).toNat)


/-! ## Reference for strconv.FormatFloat(x, 'f', -1, 64): the shortest decimal that reads back
as `x`, the closest to `x` among those of that length, written without exponent. -/

/-- |x| as a fraction, for a finite bit pattern. -/
def magnitude (bits : UInt64) : Nat × Nat :=
  let e := ((bits >>> 52) &&& 0x7FF).toNat
  let f := (bits &&& 0xFFFFFFFFFFFFF).toNat
  let (m, ex) : Nat × Int := if e == 0 then (f, -1074) else (f + 2 ^ 52, (e : Int) - 1075)
  if ex ≥ 0 then (m * 2 ^ ex.toNat, 1) else (m, 2 ^ (-ex).toNat)

/-- floor(log10 (n/d)) for n, d > 0. -/
def log10Floor (n d : Nat) : Int :=
  let est : Int := (((Nat.log2 n : Int) - (Nat.log2 d : Int)) * 30103) / 100000
  let ge (k : Int) : Bool := if k ≥ 0 then decide (d * 10 ^ k.toNat ≤ n) else decide (d ≤ n * 10 ^ (-k).toNat)
  -- largest k with 10^k ≤ n/d, searched around the estimate
  let cands : List Int := [est + 2, est + 1, est, est - 1, est - 2]
  (cands.find? ge).getD (est - 3)

def natDigits (n : Nat) : List Char := (toString n).toList

/-- digits · 10^q written in plain positional notation. -/
def positional (neg : Bool) (c : Nat) (q : Int) : String :=
  let ds := natDigits c
  let body : List Char :=
    if q ≥ 0 then ds ++ List.replicate q.toNat '0'
    else
      let k := (-q).toNat
      let (ip, fp) := if ds.length > k then (ds.take (ds.length - k), ds.drop (ds.length - k))
                      else (['0'], List.replicate (k - ds.length) '0' ++ ds)
      let fp := (fp.reverse.dropWhile (· == '0')).reverse
      if fp.isEmpty then ip else ip ++ ['.'] ++ fp
  String.ofList ((if neg then ['-'] else []) ++ body)

/-- Shortest digits: (c, q) with |x| read back from c·10^q, c without trailing zeros. -/
def shortestDigits (mag : UInt64) : Option (Nat × Int) :=
  let (n, d) := magnitude mag
  let k := log10Floor n d
  let attempt (p : Nat) : Option (Nat × Int) :=
    let q : Int := k - (p : Int) + 1
    let (tn, td) := if q ≥ 0 then (n, d * 10 ^ q.toNat) else (n * 10 ^ (-q).toNat, d)
    let lo := tn / td
    let cands := if tn % td == 0 then [lo] else
      (if 2 * (tn % td) ≤ td then [lo, lo + 1] else [lo + 1, lo])   -- closest first
    let ok (c : Nat) : Bool :=
      c != 0 && (if q ≥ 0 then roundToBits false (c * 10 ^ q.toNat) 1 else roundToBits false c (10 ^ (-q).toNat)) == some mag
    (cands.find? ok).map fun c => (c, q)
  (List.range 17).findSome? fun i => attempt (i + 1)

def stripZeros : Nat → Nat → Int → Nat × Int
  | 0, c, q => (c, q)
  | fuel + 1, c, q => if c != 0 && c % 10 == 0 then stripZeros fuel (c / 10) (q + 1) else (c, q)

def formatShortest (bits : UInt64) : String :=
  let neg := bits >>> 63 == 1
  let mag := bits &&& 0x7FFFFFFFFFFFFFFF
  if mag == 0 then (if neg then "-0" else "0")
  else if mag ≥ 0x7FF0000000000000 then (if mag == 0x7FF0000000000000 then (if neg then "-Inf" else "+Inf") else "NaN")
  else
    match shortestDigits mag with
    | some (c, q) => positional neg c q
    | none => "?"

/-- encoding/json's float64 encoder: 'f' unless |x| < 1e-6 or ≥ 1e21, then 'e' with a
two-digit negative exponent `e-0X` cleaned to `e-X`. -/
def formatJSON (bits : UInt64) : String :=
  let neg := bits >>> 63 == 1
  let mag := bits &&& 0x7FFFFFFFFFFFFFFF
  if mag == 0 then (if neg then "-0" else "0")
  else if mag ≥ 0x7FF0000000000000 then "NaN"
  else
    match shortestDigits mag with
    | none => "?"
    | some (c0, q0) =>
        let (c, q) := stripZeros 400 c0 q0
        let ds := natDigits c
        let e10 : Int := q + ds.length - 1          -- decimal exponent of the first digit
        if e10 < -6 || e10 ≥ 21 then
          let mant := match ds with
            | [] => []
            | [a] => [a]
            | a :: rest => a :: '.' :: rest
          let ea := e10.natAbs
          let expDigits := if e10 < 0 then (if ea < 10 then natDigits ea else natDigits ea)
                           else (if ea < 10 then '0' :: natDigits ea else natDigits ea)
          String.ofList ((if neg then ['-'] else []) ++ mant ++ ['e', if e10 < 0 then '-' else '+'] ++ expDigits)
        else positional neg c q

end GeomVerif.ParseFloat
