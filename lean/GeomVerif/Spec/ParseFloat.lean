/-
Reference for strconv.ParseFloat(s, 64) on the strings the WKT lexer can hand it (runs over
the characters `-+.eE0-9`): Go's readFloat grammar, the exact decimal value as a fraction, and
IEEE-754 binary64 round-to-nearest-even with overflow = error (ErrRange) and underflow = ±0.
Assumed of the Go runtime (trusted base): ParseFloat is correctly rounded.  Not modelled: the
800-significant-digit truncation of strconv's slow path (only reachable with a halfway case
longer than 800 digits).
-/
namespace GeomVerif.ParseFloat

def digitVal (c : Char) : Nat := c.toNat - '0'.toNat

/-- sign, all mantissa digits as a number, decimal exponent (value = mant·10^exp). -/
structure Dec where
  neg : Bool
  mant : Nat
  exp : Int
  deriving Repr, BEq

/-- The mantissa part: digits with at most one '.', stops at the first other character (or a
second '.').  Returns (mantissa, digits after the point, saw a digit, rest). -/
def readMant : List Char → Nat → Nat → Bool → Bool → Nat × Nat × Bool × List Char
  | [], m, fr, _, sawDigit => (m, fr, sawDigit, [])
  | c :: cs, m, fr, sawDot, sawDigit =>
      if c == '.' then
        if sawDot then (m, fr, sawDigit, c :: cs) else readMant cs m fr true sawDigit
      else if c.isDigit then readMant cs (m * 10 + digitVal c) (if sawDot then fr + 1 else fr) sawDot true
      else (m, fr, sawDigit, c :: cs)

/-- Exponent digits with Go's saturation `if e < 10000 { e = e*10 + d }`. -/
def readExp : List Char → Nat → Nat × List Char
  | [], e => (e, [])
  | c :: cs, e => if c.isDigit then readExp cs (if e < 10000 then e * 10 + digitVal c else e) else (e, c :: cs)

def readDecimal (s : List Char) : Option Dec :=
  let (neg, s) := match s with
    | '+' :: r => (false, r)
    | '-' :: r => (true, r)
    | r => (false, r)
  let (m, fr, sawDigit, rest) := readMant s 0 0 false false
  if !sawDigit then none else
  match rest with
  | [] => some ⟨neg, m, -(fr : Int)⟩
  | c :: r =>
      if c == 'e' || c == 'E' then
        let (eneg, r) := match r with
          | '+' :: r' => (false, r')
          | '-' :: r' => (true, r')
          | r' => (false, r')
        match r with
        | [] => none
        | d :: _ =>
            if !d.isDigit then none else
            let (e, rest') := readExp r 0
            if !rest'.isEmpty then none
            else some ⟨neg, m, (if eneg then -(e : Int) else (e : Int)) - (fr : Int)⟩
      else none

/-- Round-half-even of N / D for naturals. -/
def rne (N D : Nat) : Nat :=
  let q := N / D; let r := N % D
  if 2 * r < D then q else if 2 * r > D then q + 1 else if q % 2 == 0 then q else q + 1

/-- N/D scaled by 2^(-e). -/
def scaled (num den : Nat) (e : Int) : Nat × Nat :=
  if e ≥ 0 then (num, den * 2 ^ e.toNat) else (num * 2 ^ (-e).toNat, den)

/-- Nearest binary64 to ±num/den (ties to even); `none` when it rounds beyond the largest finite
value. -/
def roundToBits (neg : Bool) (num den : Nat) : Option UInt64 :=
  let sign : UInt64 := if neg then 0x8000000000000000 else 0
  if num == 0 || den == 0 then some sign else
  -- e with 2^52 ≤ (num/den)/2^e < 2^53
  let e0 : Int := (Nat.log2 num : Int) - (Nat.log2 den : Int) - 52
  let fits (e : Int) : Bool :=
    let (N, D) := scaled num den e
    decide (2 ^ 52 * D ≤ N) && decide (N < 2 ^ 53 * D)
  let e : Int := if fits e0 then e0 else if fits (e0 - 1) then e0 - 1 else if fits (e0 + 1) then e0 + 1
                 else if fits (e0 - 2) then e0 - 2 else e0 + 2
  let e := if e < -1074 then -1074 else e
  let (N, D) := scaled num den e
  let m := rne N D
  let (m, e) := if m == 2 ^ 53 then (2 ^ 52, e + 1) else (m, e)
  let bitsNat : Int := (e + 1074) * (2 ^ 52 : Int) + m
  if bitsNat ≥ (0x7FF0000000000000 : Int) then none
  else some (sign + UInt64.ofNat bitsNat.toNat)

def parseFloat (s : List Char) : Option UInt64 :=
  match readDecimal s with
  | none => none
  | some d =>
      if d.mant == 0 then some (if d.neg then 0x8000000000000000 else 0)
      else if d.exp > 400 then none                    -- ≥ 10^400: overflow whatever the mantissa
      else if d.exp < -100000 then some (if d.neg then 0x8000000000000000 else 0)
      else if d.exp ≥ 0 then roundToBits d.neg (d.mant * 10 ^ d.exp.toNat) 1
      else
        -- far below the smallest subnormal: zero (avoid huge powers)
        let digits := (Nat.log2 d.mant) / 3 + 1     -- ≥ number of decimal digits
        if (d.exp : Int) + digits < -400 then some (if d.neg then 0x8000000000000000 else 0)
        else roundToBits d.neg d.mant (10 ^ (-d.exp).toNat)

end GeomVerif.ParseFloat
