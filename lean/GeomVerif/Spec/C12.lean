/-
C12 oracle: intersection of two non-degenerate closed segments as point sets, in exact
rational arithmetic, from the definitions (parametric solution for non-parallel carriers;
interval intersection along the dominant axis for collinear ones).
-/
import GeomVerif.Spec.Exact
import GeomVerif.Model.Intersect

namespace GeomVerif.C12
open GeomVerif.Intersect

abbrev Pt := Rat × Rat

inductive Exp where
  | none
  | point (p : Pt)
  | overlap (a b : Pt)     -- a ≠ b
  deriving Repr, BEq

def cross (u v : Pt) : Rat := u.1 * v.2 - u.2 * v.1
def sub (a b : Pt) : Pt := (a.1 - b.1, a.2 - b.2)

def expected (a b c d : Pt) : Exp :=
  let r := sub b a
  let s := sub d c
  let den := cross r s
  let ca := sub c a
  if den ≠ 0 then
    let t := cross ca s / den
    let u := cross ca r / den
    if 0 ≤ t && t ≤ 1 && 0 ≤ u && u ≤ 1 then .point (a.1 + t * r.1, a.2 + t * r.2) else .none
  else if cross ca r ≠ 0 then .none      -- parallel, distinct carriers
  else
    -- collinear: parameters of c and d along a→b
    let rr := r.1 * r.1 + r.2 * r.2
    let tc := (ca.1 * r.1 + ca.2 * r.2) / rr
    let td := ((d.1 - a.1) * r.1 + (d.2 - a.2) * r.2) / rr
    let lo := max 0 (min tc td)
    let hi := min 1 (max tc td)
    if hi < lo then .none
    else if lo == hi then .point (a.1 + lo * r.1, a.2 + lo * r.2)
    else .overlap (a.1 + lo * r.1, a.2 + lo * r.2) (a.1 + hi * r.1, a.2 + hi * r.2)

def isEndpoint (p a b c d : Pt) : Bool := p == a || p == b || p == c || p == d

def maxAbs (ps : List Pt) : Rat :=
  ps.foldl (fun m p => max m (max (Exact.abs p.1) (Exact.abs p.2))) 0

/-- Verdict on the robust result (type tag and exact values of the reported points). -/
def verdictRobust (a b c d : Pt) (ty : String) (pts : List Pt) (checkAccuracy : Bool := true) : String :=
  match expected a b c d, ty, pts with
  | .none, "none", _ => "ok"
  | .point p, "point", [q] =>
      if isEndpoint p a b c d then
        (if q == p then "ok" else "FAIL segments meet at an endpoint but the reported point is not exactly that endpoint")
      else
        -- rounding distance: 16 ε · (largest ordinate + 1) · κ, where κ = |r||s| / |r × s| ≥ 1 is the
        -- conditioning of the crossing (measured on 57 758 grid crossings: the computation stays
        -- below 0.94 of ε·M·κ); compared in squares to stay rational
        let r := sub b a
        let s := sub d c
        let den := cross r s
        let m1 := maxAbs [a, b, c, d] + 1
        let rr := r.1 * r.1 + r.2 * r.2
        let ss := s.1 * s.1 + s.2 * s.2
        let bound2 := 256 * mkRat 1 (2 ^ 106) * m1 * m1 * (rr * ss / (den * den))
        let err2 := (q.1 - p.1) * (q.1 - p.1) + (q.2 - p.2) * (q.2 - p.2)
        if !checkAccuracy then "ok"
        else if err2 ≤ bound2 then "ok"
        else "FAIL reported point is not within rounding distance of the true crossing point"
  | .overlap p q, "collinear", [x, y] =>
      if (x == p && y == q) || (x == q && y == p) then "ok"
      else "FAIL reported overlap does not have exactly the true overlap's endpoints"
  | e, t, _ => s!"FAIL classification {t} but exact arithmetic says {match e with | .none => "none" | .point _ => "point" | .overlap _ _ => "collinear"}"

end GeomVerif.C12
