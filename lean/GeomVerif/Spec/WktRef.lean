/-
An independent reference reader for Well-Known Text (OGC 06-103r4 §7 BNF / ISO 13249-3), written
as a tokenizer, a recursive-descent recogniser producing a parse tree, and a separate semantic
pass that resolves the coordinate dimension and enforces the validity rules the property names.
It shares nothing with the library's LALR tables or layout stack.

Lexical leniencies (deliberate, documented in DESIGN.md, so that the reader never rejects for a
purely lexical reason something the library accepts): NEL (0x85) and NBSP (0xA0) count as white
space and a NUL byte ends the text, as in the library's byte-wise lexer.

Errors are classified: `lexical`, `grammar`, or `semantic` (a rule the property says must
cause rejection: arity < 2 or > 4, mixed dimension, one-point linestring, short or unclosed ring).
-/
import GeomVerif.Spec.WkbSpec
import GeomVerif.Spec.ParseFloat
import GeomVerif.Spec.WellFormed

namespace GeomVerif.WktRef
open GeomVerif GeomVerif.Wkb GeomVerif.WkbSpec

inductive RefErr where
  | lexical (why : String)
  | grammar (why : String)
  | semantic (why : String)
  deriving Repr, BEq, Inhabited

inductive Tok where
  | word (s : String)
  | num (v : Ord)
  | lp | rp | comma
  deriving Repr, BEq, Inhabited

def isWs (b : UInt8) : Bool := b == 9 || b == 10 || b == 11 || b == 12 || b == 13 || b == 32 || b == 0x85 || b == 0xA0
def isAsciiLetter (b : UInt8) : Bool := (65 ≤ b && b ≤ 90) || (97 ≤ b && b ≤ 122)
def isNumChar (b : UInt8) : Bool :=
  (48 ≤ b && b ≤ 57) || b == 45 || b == 43 || b == 46 || b == 101 || b == 69
def upper (b : UInt8) : Char := Char.ofNat (if 97 ≤ b && b ≤ 122 then b.toNat - 32 else b.toNat)

def tokenize : Nat → List UInt8 → List Tok → Except RefErr (List Tok)
  | 0, _, acc => pure acc.reverse
  | _, [], acc => pure acc.reverse
  | fuel + 1, b :: bs, acc =>
      if b == 0 then pure acc.reverse
      else if isWs b then tokenize fuel bs acc
      else if b == 40 then tokenize fuel bs (.lp :: acc)
      else if b == 41 then tokenize fuel bs (.rp :: acc)
      else if b == 44 then tokenize fuel bs (.comma :: acc)
      else if isAsciiLetter b then
        let w := (b :: bs).takeWhile isAsciiLetter
        tokenize fuel ((b :: bs).dropWhile isAsciiLetter) (.word (String.ofList (w.map upper)) :: acc)
      else if (48 ≤ b && b ≤ 57) || b == 45 || b == 46 then
        let w := (b :: bs).takeWhile isNumChar
        match ParseFloat.parseFloat (w.map fun c => Char.ofNat c.toNat) with
        | some v => tokenize fuel ((b :: bs).dropWhile isNumChar) (.num v :: acc)
        | none => throw (.lexical "malformed or out-of-range number")
      else throw (.lexical "unexpected character")

/-! ## Parse tree -/

inductive Body where
  | empty
  | pt (c : List Ord)
  | line (cs : List (List Ord))
  | poly (rs : List (List (List Ord)))
  | mpt (cs : List (Option (List Ord)))
  | mline (ls : List (Option (List (List Ord))))
  | mpoly (ps : List (Option (List (List (List Ord)))))
  deriving Repr, BEq, Inhabited

inductive PT where
  | leaf (kind : Nat) (sfx : Option Layout) (body : Body)
  | coll (sfx : Option Layout) (members : List PT)
  deriving Repr, Inhabited

abbrev Parser (α : Type) := List Tok → Except RefErr (α × List Tok)

def tagInfo (w : String) : Option (Nat × Option Layout) :=
  let bases := [("POINT", 1), ("LINESTRING", 2), ("POLYGON", 3), ("MULTIPOINT", 4),
                ("MULTILINESTRING", 5), ("MULTIPOLYGON", 6), ("GEOMETRYCOLLECTION", 7)]
  bases.findSome? fun (name, k) =>
    if w == name then some (k, none)
    else if w == name ++ "Z" then some (k, some 2)
    else if w == name ++ "M" then some (k, some 3)
    else if w == name ++ "ZM" then some (k, some 4)
    else none

def suffixWord (w : String) : Option Layout :=
  if w == "Z" then some 2 else if w == "M" then some 3 else if w == "ZM" then some 4 else none

def expect (t : Tok) : Parser Unit
  | t' :: rest => if t == t' then pure ((), rest) else throw (.grammar "unexpected token")
  | [] => throw (.grammar "unexpected end of text")

/-- One or more numbers. -/
def nums : Parser (List Ord)
  | .num v :: rest =>
      let more := rest.takeWhile (fun t => match t with | .num _ => true | _ => false)
      pure (v :: more.filterMap (fun t => match t with | .num x => some x | _ => none),
            rest.dropWhile (fun t => match t with | .num _ => true | _ => false))
  | _ => throw (.grammar "number expected")

/-- item (',' item)* ')' -/
def sepList {α} (item : Parser α) : Nat → Parser (List α)
  | 0, _ => throw (.grammar "too deep")
  | fuel + 1, toks => do
      let (x, rest) ← item toks
      match rest with
      | .comma :: rest' =>
          let (xs, rest'') ← sepList item fuel rest'
          pure (x :: xs, rest'')
      | .rp :: rest' => pure ([x], rest')
      | _ => throw (.grammar "',' or ')' expected")

/-- '(' item (',' item)* ')' -/
def parenList {α} (item : Parser α) (fuel : Nat) : Parser (List α) := fun toks => do
  let (_, rest) ← expect .lp toks
  sepList item fuel rest

def orEmpty {α} (p : Parser α) : Parser (Option α)
  | .word "EMPTY" :: rest => pure (none, rest)
  | toks => do let (x, rest) ← p toks; pure (some x, rest)

def pointText : Parser (List Ord) := fun toks => do
  let (_, rest) ← expect .lp toks
  let (c, rest) ← nums rest
  let (_, rest) ← expect .rp rest
  pure (c, rest)

def bareOrParenPoint : Parser (List Ord)
  | .lp :: rest => pointText (.lp :: rest)
  | toks => nums toks

def parseGeom : Nat → Parser PT
  | 0, _ => throw (.grammar "too deep")
  | fuel + 1, toks =>
    match toks with
    | .word w :: rest =>
        match tagInfo w with
        | none => throw (.grammar "geometry tag expected")
        | some (kind, attached) => do
            -- a detached suffix is only possible after a bare tag
            let (sfx, rest) : Option Layout × List Tok :=
              match attached, rest with
              | none, .word s :: rest' =>
                  (match suffixWord s with
                   | some l => (some l, rest')
                   | none => (none, rest))
              | a, r => (a, r)
            let n := rest.length + 1
            match rest with
            | .word "EMPTY" :: rest' =>
                pure (if kind == 7 then .coll sfx [] else .leaf kind sfx .empty, rest')
            | _ =>
              match kind with
              | 1 => do let (c, r) ← pointText rest; pure (.leaf 1 sfx (.pt c), r)
              | 2 => do let (cs, r) ← parenList nums n rest; pure (.leaf 2 sfx (.line cs), r)
              | 3 => do let (rs, r) ← parenList (parenList nums n) n rest; pure (.leaf 3 sfx (.poly rs), r)
              | 4 => do let (cs, r) ← parenList (orEmpty bareOrParenPoint) n rest; pure (.leaf 4 sfx (.mpt cs), r)
              | 5 => do let (ls, r) ← parenList (orEmpty (parenList nums n)) n rest; pure (.leaf 5 sfx (.mline ls), r)
              | 6 => do
                  let (ps, r) ← parenList (orEmpty (parenList (parenList nums n) n)) n rest
                  pure (.leaf 6 sfx (.mpoly ps), r)
              | _ => do let (ms, r) ← parenList (parseGeom fuel) n rest; pure (.coll sfx ms, r)
    | _ => throw (.grammar "geometry tag expected")

/-! ## Semantic pass -/

def defaultLayout (arity : Nat) : Except RefErr Layout :=
  match arity with
  | 2 => pure 1 | 3 => pure 2 | 4 => pure 4
  | 0 | 1 => throw (.semantic "a point needs at least 2 ordinates")
  | _ => throw (.semantic "a point has at most 4 ordinates")

def Body.points : Body → List (List Ord)
  | .empty => []
  | .pt c => [c]
  | .line cs => cs
  | .poly rs => rs.flatten
  | .mpt cs => cs.filterMap id
  | .mline ls => (ls.filterMap id).flatten
  | .mpoly ps => (ps.filterMap id).flatten.flatten

mutual
/-- Dimension constraints in document order: a declared suffix, or the arity of the first
point of an unsuffixed geometry. -/
def PT.constraints : PT → Except RefErr (List Layout)
  | .leaf _ (some l) _ => pure [l]
  | .leaf _ none b =>
      match b.points with
      | [] => pure []
      | c :: _ => do pure [← defaultLayout c.length]
  | .coll sfx ms => do
      let inner ← PT.constraintsL ms
      pure ((match sfx with | some l => [l] | none => []) ++ inner)
def PT.constraintsL : List PT → Except RefErr (List Layout)
  | [] => pure []
  | m :: ms => do pure ((← PT.constraints m) ++ (← PT.constraintsL ms))
end

def feq (a b : Ord) : Bool :=
  a == b || ((a &&& 0x7FFFFFFFFFFFFFFF) == 0 && (b &&& 0x7FFFFFFFFFFFFFFF) == 0)

def checkPoint (l : Layout) (c : List Ord) : Except RefErr Unit :=
  if c.length < 2 then throw (.semantic "a point needs at least 2 ordinates")
  else if c.length > 4 then throw (.semantic "a point has at most 4 ordinates")
  else if c.length != l.stride then throw (.semantic "mixed dimensionality")
  else pure ()

def checkLine (l : Layout) (cs : List (List Ord)) : Except RefErr Unit := do
  cs.forM (checkPoint l)
  if cs.length < 2 then throw (.semantic "a linestring needs at least 2 points")

def checkRing (l : Layout) (cs : List (List Ord)) : Except RefErr Unit := do
  cs.forM (checkPoint l)
  if cs.length < 4 then throw (.semantic "a ring needs at least 4 points")
  let dims := if hasZ l then 3 else 2
  match cs.head?, cs.getLast? with
  | some a, some b =>
      if (List.range dims).all fun i => feq (a.getD i 0) (b.getD i 0) then pure ()
      else throw (.semantic "ring not closed")
  | _, _ => pure ()

def resolveLeaf (l : Layout) (kind : Nat) (b : Body) : Except RefErr AGeom :=
  match kind, b with
  | 1, .empty => pure (.point l 0 none)
  | 1, .pt c => do checkPoint l c; pure (.point l 0 (some c))
  | 2, .empty => pure (.lineString l 0 [])
  | 2, .line cs => do checkLine l cs; pure (.lineString l 0 cs)
  | 3, .empty => pure (.polygon l 0 [])
  | 3, .poly rs => do rs.forM (checkRing l); pure (.polygon l 0 rs)
  | 4, .empty => pure (.multiPoint l 0 [])
  | 4, .mpt cs => do (cs.filterMap id).forM (checkPoint l); pure (.multiPoint l 0 cs)
  | 5, .empty => pure (.multiLineString l 0 [])
  | 5, .mline ls => do (ls.filterMap id).forM (checkLine l); pure (.multiLineString l 0 (ls.map (·.getD [])))
  | 6, .empty => pure (.multiPolygon l 0 [])
  | 6, .mpoly ps => do
      (ps.filterMap id).flatten.forM (checkRing l)
      pure (.multiPolygon l 0 (ps.map (·.getD [])))
  | _, _ => throw (.grammar "body does not fit the tag")

mutual
def PT.resolve (l : Layout) : PT → Except RefErr AGeom
  | .leaf k _ b => resolveLeaf l k b
  | .coll _ ms => do pure (.collection l 0 (← PT.resolveL l ms))
def PT.resolveL (l : Layout) : List PT → Except RefErr (List AGeom)
  | [] => pure []
  | m :: ms => do pure ((← PT.resolve l m) :: (← PT.resolveL l ms))
end

/-- The reference reading of a text. -/
def read (bytes : List UInt8) : Except RefErr AGeom := do
  let toks ← tokenize (bytes.length + 1) bytes []
  let (pt, rest) ← parseGeom (toks.length + 1) toks
  if !rest.isEmpty then throw (.grammar "text after the geometry")
  let cons ← pt.constraints
  let l := cons.headD 1
  if cons.any (· != l) then throw (.semantic "mixed dimensionality")
  pt.resolve l

/-! ## Normal form for comparisons: collections carry their effective dimension. -/

mutual
def normA : AGeom → AGeom
  | .collection f s gs => .collection (AGeom.dims (.collection f s gs)) s (normAs gs)
  | g => g
def normAs : List AGeom → List AGeom
  | [] => []
  | g :: gs => normA g :: normAs gs
end

/-! ## "Consistent geometry" on the library's own (flat) representation -/

def ringsOK (l : Layout) (flat : List Ord) : Nat → List Nat → Bool
  | _, [] => true
  | start, e :: es =>
      let s := l.stride
      let n := (e - start) / s
      let dims := if hasZ l then 3 else 2
      decide (4 ≤ n) &&
      ((List.range dims).all fun i => feq (flat.getD (start + i) 0) (flat.getD (e - s + i) 1)) &&
      ringsOK l flat e es

def linesOK (s : Nat) : Nat → List Nat → Bool
  | _, [] => true
  | start, e :: es => (e == start || decide (2 * s ≤ e - start)) && linesOK s e es

def lastEnd (start : Nat) (ends : List Nat) : Nat := ends.getLast?.getD start

def polysOK (l : Layout) (flat : List Ord) : Nat → List (List Nat) → Bool
  | _, [] => true
  | start, ends :: rest => ringsOK l flat start ends && polysOK l flat (lastEnd start ends) rest

mutual
/-- One dimension `l` throughout; stride matches; offsets well formed; linestrings have 0 or at
least 2 points; rings are closed with at least 4 points; multipoint members 0 or 1 point. -/
def consistent (l : Layout) : WGeom → Bool
  | .point g => g.layout == l && g.wellFormedPoint
  | .lineString g => g.layout == l && g.wellFormed && (g.flat.isEmpty || decide (2 * g.stride ≤ g.flat.length))
  | .polygon g => g.layout == l && g.wellFormed && ringsOK l g.flat 0 g.ends
  | .multiPoint g => g.layout == l && g.wellFormed && mpointEndsOK g.stride g.ends 0
  | .multiLineString g => g.layout == l && g.wellFormed && linesOK g.stride 0 g.ends
  | .multiPolygon g => g.layout == l && g.wellFormed && polysOK l g.flat 0 g.endss
  | .collection fixed _ gs => fixed == l && consistentL l gs
def consistentL (l : Layout) : List WGeom → Bool
  | [] => true
  | g :: gs => consistent l g && consistentL l gs
end

def isConsistent (g : WGeom) : Bool :=
  let l := g.layoutOf
  (l == 1 || l == 2 || l == 3 || l == 4) && consistent l g

end GeomVerif.WktRef
