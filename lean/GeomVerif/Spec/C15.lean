/-
C15 oracle: exact squared minimum distances in rational arithmetic, in 2D and 3D, from the
definitions: point–segment = min over t in [0,1]; point–linestring = min over segments;
segment–segment = 0 when they meet, otherwise the least endpoint-to-segment distance, with the
interior critical point of the two-parameter quadratic in the non-parallel 3D case.
-/
import GeomVerif.Spec.Exact

namespace GeomVerif.C15
open GeomVerif.Exact

abbrev V := List Rat     -- a point in 2D or 3D

def dot (u v : V) : Rat := (List.zipWith (· * ·) u v).foldl (· + ·) 0
def vsub (u v : V) : V := List.zipWith (· - ·) u v
def vadd (u v : V) : V := List.zipWith (· + ·) u v
def smul (t : Rat) (u : V) : V := u.map (t * ·)
def norm2 (u : V) : Rat := dot u u

def clamp01 (t : Rat) : Rat := if t < 0 then 0 else if t > 1 then 1 else t

/-- Exact squared distance from `p` to the closed segment [a,b] (a = b allowed). -/
def ptSeg2 (p a b : V) : Rat :=
  let ab := vsub b a
  let l := norm2 ab
  if l == 0 then norm2 (vsub p a)
  else
    let t := clamp01 (dot (vsub p a) ab / l)
    norm2 (vsub p (vadd a (smul t ab)))

def segs {β : Type} : List β → List (β × β)
  | a :: b :: r => (a, b) :: segs (b :: r)
  | _ => []

def ptLine2 (p : V) (line : List V) : Rat :=
  match line with
  | [] => 0
  | v :: _ => (segs line).foldl (fun m s => min m (ptSeg2 p s.1 s.2)) (norm2 (vsub p v))

/-- Exact squared distance between closed segments [a,b] and [c,d] in any dimension: the interior
critical point of |a + s·u − c − t·v|² when it exists inside the unit square, else the minimum
over the four edges of the square (endpoint-to-segment distances). -/
def segSeg2 (a b c d : V) : Rat :=
  let u := vsub b a
  let v := vsub d c
  let w := vsub a c
  let A := dot u u; let B := dot u v; let C := dot v v; let D := dot u w; let E := dot v w
  let den := A * C - B * B
  let edge := min (min (ptSeg2 a c d) (ptSeg2 b c d)) (min (ptSeg2 c a b) (ptSeg2 d a b))
  if den == 0 then edge
  else
    let s := (B * E - C * D) / den
    let t := (A * E - B * D) / den
    if 0 ≤ s && s ≤ 1 && 0 ≤ t && t ≤ 1 then
      min edge (norm2 (vsub (vadd a (smul s u)) (vadd c (smul t v))))
    else edge

/-- Squared perpendicular distance from p to the infinite line through a ≠ b (2D). -/
def perp2 (p a b : V) : Rat :=
  let ab := vsub b a
  let ap := vsub p a
  norm2 ap - dot ap ab * dot ap ab / norm2 ab

def scaleOf (vs : List V) : Rat := vs.foldl (fun m v => v.foldl (fun m x => max m (abs x)) m) 1

/-- `g` (what the library returned) is within 1e-9·scale of sqrt(d2). -/
def close (g : Rat) (d2 : Rat) (scale : Rat) : Bool :=
  let tol := scale * mkRat 1 1000000000
  let lo := if g - tol < 0 then 0 else g - tol
  0 ≤ g && lo * lo ≤ d2 && d2 ≤ (g + tol) * (g + tol)

end GeomVerif.C15
