/-
C13 oracle: the exact convex hull of the input (Andrew's monotone chain in rational
arithmetic) and what the property demands of the library's answer.
-/
import GeomVerif.Spec.Exact

namespace GeomVerif.C13
open GeomVerif.Exact

abbrev Pt := Rat × Rat

def cross (o a b : Pt) : Rat := (a.1 - o.1) * (b.2 - o.2) - (a.2 - o.2) * (b.1 - o.1)

def lexLt (a b : Pt) : Bool := a.1 < b.1 || (a.1 == b.1 && a.2 < b.2)

def insertLex (p : Pt) : List Pt → List Pt
  | [] => [p]
  | q :: r => if lexLt p q then p :: q :: r else if p == q then q :: r else q :: insertLex p r

def sortUniq (ps : List Pt) : List Pt := ps.foldl (fun acc p => insertLex p acc) []

/-- One half of the monotone chain: keep strictly convex turns only (stack head = last). -/
def halfHull (ps : List Pt) : List Pt :=
  ps.foldl (fun (st : List Pt) p =>
    let rec pop (fuel : Nat) (st : List Pt) : List Pt :=
      match fuel, st with
      | f + 1, b :: a :: rest => if cross a b p ≤ 0 then pop f (a :: rest) else st
      | _, st => st
    p :: pop st.length st) []

/-- Extreme points of the input in counter-clockwise order (no repetition). -/
def hull (ps : List Pt) : List Pt :=
  let s := sortUniq ps
  if s.length < 3 then s
  else
    let lower := (halfHull s).reverse
    let upper := (halfHull s.reverse).reverse
    lower.dropLast ++ upper.dropLast

def sameSet (a b : List Pt) : Bool := a.all (b.contains ·) && b.all (a.contains ·)

/-- Every consecutive triple of the closed ring turns strictly the same way. -/
def strictlyConvexRing (ring : List Pt) : Bool :=
  match ring with
  | a :: b :: _ =>
    let ext := ring ++ [b]       -- closed ring v0..vn=v0, then v1 again
    let turns : List Rat := (List.range (ring.length - 1)).map fun i =>
      match ext[i]?, ext[i+1]?, ext[i+2]? with
      | some p, some q, some r => cross p q r
      | _, _, _ => (0 : Rat)
    let _ := a
    turns.all (· > 0) || turns.all (· < 0)
  | _ => false

end GeomVerif.C13
