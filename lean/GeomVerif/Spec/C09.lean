/-
C09 oracle: exact polyline length (bracketed) and exact signed shoelace area
(counter-clockwise positive) of the XY coordinates in rational arithmetic, summed over
parts, with the forward error bound (n+c)·2^-52·Σ|terms| of one summation pass.
-/
import GeomVerif.Spec.Exact
import GeomVerif.Model.Measure

namespace GeomVerif.C09
open GeomVerif GeomVerif.Exact

abbrev Pt := Rat × Rat

/-- XY of each coordinate of a flat run `[lo, hi)` (independent of extra dimensions). -/
def ptsOf (stride : Nat) (flat : List Rat) (lo hi : Nat) : List Pt :=
  if stride < 2 then [] else
  (List.range ((hi - lo) / stride)).filterMap fun k =>
    match flat[lo + k * stride]?, flat[lo + k * stride + 1]? with
    | some x, some y => some (x, y)
    | _, _ => none

def pairs {β} : List β → List (β × β)
  | a :: b :: rest => (a, b) :: pairs (b :: rest)
  | _ => []

/-- Twice the signed shoelace area: Σ (x_i·y_{i+1} − x_{i+1}·y_i). -/
def cross2 (ps : List Pt) : Rat :=
  (pairs ps).foldl (fun acc (p, q) => acc + (p.1 * q.2 - q.1 * p.2)) 0

/-- Σ |computed terms| of the trapezoid pass, for the error bound. -/
def termMag (ps : List Pt) : Rat :=
  (pairs ps).foldl (fun acc (p, q) => acc + Exact.abs ((q.2 - p.2) * (q.1 + p.1))) 0

def isClosed (ps : List Pt) : Bool :=
  match ps.head?, ps.getLast? with
  | some a, some b => a == b
  | _, _ => true

def lenBracket (ps : List Pt) : Rat × Rat :=
  (pairs ps).foldl (fun acc (p, q) =>
    let d2 := (q.1 - p.1) * (q.1 - p.1) + (q.2 - p.2) * (q.2 - p.2)
    let (lo, hi) := sqrtBracket d2
    (acc.1 + lo, acc.2 + hi)) (0, 0)

/-- The rings / lines of a geometry as point lists, and whether it has area. -/
def parts : MGeom Rat → List (List Pt) × Bool
  | .point _ _ => ([], false)
  | .multiPoint _ _ _ => ([], false)
  | .lineString s f => ([ptsOf s f 0 f.length], false)
  | .linearRing s f => ([ptsOf s f 0 f.length], true)
  | .polygon s f ends => (runs s f ends 0, true)
  | .multiLineString s f ends => (runs s f ends 0, false)
  | .multiPolygon s f endss => (runs s f endss.flatten 0, true)
where runs (s : Nat) (f : List Rat) : List Nat → Nat → List (List Pt)
  | [], _ => []
  | e :: es, lo => ptsOf s f lo e :: runs s f es e

structure Ref where
  area : Rat          -- exact signed area (0 for points and lines)
  areaTol : Rat
  lenLo : Rat
  lenHi : Rat
  lenTol : Rat
  closed : Bool       -- every ring closed (area oracle applies)

def reference (g : MGeom Rat) : Ref :=
  let (ps, hasArea) := parts g
  let nseg : Nat := (ps.map fun p => p.length - 1).foldl (· + ·) 0
  let c : Rat := 8 + (ps.length : Rat)
  let a2 : Rat := if hasArea then (ps.map cross2).foldl (· + ·) 0 else 0
  let mag : Rat := if hasArea then (ps.map termMag).foldl (· + ·) 0 else 0
  let lb := (ps.map lenBracket).foldl (fun acc b => (acc.1 + b.1, acc.2 + b.2)) (0, 0)
  { area := a2 / 2, areaTol := ((nseg : Rat) + c) * two52 * mag / 2,
    lenLo := lb.1, lenHi := lb.2, lenTol := ((nseg : Rat) + c) * two52 * lb.2,
    closed := ps.all isClosed }

end GeomVerif.C09
