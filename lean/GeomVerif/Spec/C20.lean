/-
C20 oracle in exact rational arithmetic: indexes strictly increasing incl. first and last;
every omitted point within the threshold of the segment joining its retained neighbours
(exact point-segment distance, written from the definition: minimum over t in [0,1]).
-/
import GeomVerif.Spec.Exact

namespace GeomVerif.C20
open GeomVerif.Exact

abbrev Pt := Rat × Rat

/-- Exact squared distance from `p` to the segment [a,b]. -/
def segDist2 (a b p : Pt) : Rat :=
  let dx := b.1 - a.1
  let dy := b.2 - a.2
  let len2 := dx * dx + dy * dy
  if len2 == 0 then (p.1 - a.1) * (p.1 - a.1) + (p.2 - a.2) * (p.2 - a.2)
  else
    let t := ((p.1 - a.1) * dx + (p.2 - a.2) * dy) / len2
    let t := if t < 0 then 0 else if t > 1 then 1 else t
    let qx := a.1 + t * dx
    let qy := a.2 + t * dy
    (p.1 - qx) * (p.1 - qx) + (p.2 - qy) * (p.2 - qy)

def strictlyIncreasing : List Nat → Bool
  | a :: b :: rest => a < b && strictlyIncreasing (b :: rest)
  | _ => true

/-- How far the float64 evaluation of `distanceFromSegmentSquared` can be from the exact squared
distance: the parameter, the foot and the two differences are each a few roundings of numbers no
larger than the largest ordinate M of the three points, so the error is below 64·2⁻⁵³·M². -/
def roundOff (a b p : Pt) : Rat :=
  let m := [a.1, a.2, b.1, b.2, p.1, p.2].foldl (fun m x => max m (Exact.abs x)) 0
  64 * m * m / 9007199254740992

/-- Consecutive retained pairs (i,j) and the omitted k between them are within tolerance: the
exact squared distance is at most thr² plus what rounding can account for (never more than a
10⁻⁹ part of thr²). -/
def omittedOK (pts : Array Pt) (thr2 : Rat) : List Nat → Bool
  | i :: j :: rest =>
      (List.range (j - i - 1)).all (fun d =>
        let k := i + 1 + d
        match pts[i]?, pts[j]?, pts[k]? with
        | some a, some b, some p =>
            segDist2 a b p ≤ thr2 + min (thr2 * mkRat 1 1000000000) (roundOff a b p)
        | _, _, _ => false) && omittedOK pts thr2 (j :: rest)
  | _ => true

/-- `slack` is zero on the integer grids of the property's domain (where every difference is exact);
for inputs off those grids — ordinates 2^-1000 apart next to whole numbers — it is 10⁻⁹ of the
coordinate scale, as for the distance functions of C15. -/
def verdict (pts : Array Pt) (thr : Rat) (idx idx2 : List Nat) (slack : Rat := 0) : String :=
  let n := pts.size
  if n < 3 then (if idx == List.range n then "ok" else "FAIL fewer than 3 points must all be kept")
  else if !strictlyIncreasing idx then "FAIL indexes not strictly increasing"
  else if idx.head? != some 0 || idx.getLast? != some (n - 1) then "FAIL first or last point missing"
  else if !idx.all (· < n) then "FAIL index out of range"
  -- float evaluation of the distance may differ from the exact one by rounding: see `roundOff`
  else if !omittedOK pts ((thr + slack) * (thr + slack)) idx then
    "FAIL an omitted point is farther than the threshold from the segment joining its retained neighbours"
  else if idx2 != List.range idx.length then "FAIL simplifying the simplified line removed further points"
  else "ok"

end GeomVerif.C20
