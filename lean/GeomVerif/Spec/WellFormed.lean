/-
The property's wording of "structurally well formed" (C01), independent of the
library's own unexported verify(): stride = dimension of the layout, a whole
number of coordinates, ends stride-aligned, non-decreasing, finishing exactly at
the end of the coordinates.  Bool-valued so the driver can evaluate it on what
Go returned; used as a Prop through coercion.
-/
import GeomVerif.Model.Flat

namespace GeomVerif
variable {α : Type}

/-- `n` is a whole number of `stride`-sized coordinates (for stride 0: nothing). -/
def aligned (stride n : Nat) : Bool :=
  if stride = 0 then n == 0 else n % stride == 0

/-- Ends are aligned, non-decreasing from `off`, and the last one (or `off` when
there is none) equals `len`. -/
def endsOK (stride : Nat) : List Nat → Nat → Nat → Bool
  | [], off, len => off == len
  | e :: es, off, len => aligned stride e && decide (off ≤ e) && endsOK stride es e len

def G1.wellFormed (g : G1 α) : Bool :=
  g.stride == g.layout.stride && aligned g.stride g.flat.length

/-- A point holds zero or one coordinate. -/
def G1.wellFormedPoint (g : G1 α) : Bool :=
  g.stride == g.layout.stride && (g.flat.length == 0 || g.flat.length == g.stride)

def G2.wellFormed (g : G2 α) : Bool :=
  g.stride == g.layout.stride && aligned g.stride g.flat.length &&
    endsOK g.stride g.ends 0 g.flat.length

def G3.wellFormed (g : G3 α) : Bool :=
  g.stride == g.layout.stride && aligned g.stride g.flat.length &&
    endsOK g.stride g.endss.flatten 0 g.flat.length

/-- Additional MultiPoint shape: every member is empty or exactly one coordinate. -/
def mpointEndsOK (stride : Nat) : List Nat → Nat → Bool
  | [], _ => true
  | e :: es, off => (e == off || e == off + stride) && mpointEndsOK stride es e

/-! ## End offsets a nested coordinate array must produce -/

/-- End offsets produced for a list of coordinate lists starting at `off`. -/
def endsOf (off : Nat) : List (List (List α)) → List Nat
  | [] => []
  | cs :: rest => (off + cs.flatten.length) :: endsOf (off + cs.flatten.length) rest

def endssOf (off : Nat) : List (List (List (List α))) → List (List Nat)
  | [] => []
  | css :: rest => endsOf off css :: endssOf (off + css.flatten.flatten.length) rest

def somes : List (Option (List α)) → List (List α)
  | [] => []
  | none :: r => somes r
  | some c :: r => c :: somes r

def mpEndsOf (off : Nat) : List (Option (List α)) → List Nat
  | [] => []
  | none :: r => off :: mpEndsOf off r
  | some c :: r => (off + c.length) :: mpEndsOf (off + c.length) r

end GeomVerif
