/-
Model of xy/convex_hull.go (after the D4 repairs), transform.UniqueCoords / TreeSet,
sorting.IsLess2D, the radial comparator, CoordStack-based Graham scan, cleanRing and
lineOrPolygon.  A coordinate is the list of all its ordinates (X, Y first); orientation and
point-in-ring are parameters (exact by C10 / the C11 model).
-/
import GeomVerif.Model.Centroid

namespace GeomVerif.Hull
open GeomVerif GeomVerif.Rdp GeomVerif.Locate GeomVerif.Intersect GeomVerif.Dist

variable {α : Type}

abbrev C (α : Type) := List α        -- one coordinate with all its ordinates

def cx (F : DOps α) (c : C α) : α := c.getD 0 F.zero
def cy (F : DOps α) (c : C α) : α := c.getD 1 F.zero
def xy (F : DOps α) (c : C α) : P α := (cx F c, cy F c)

def eqXY (F : DOps α) (a b : C α) : Bool := peq F.toDetOps (xy F a) (xy F b)

/-- sorting.IsLess2D -/
def less2D (F : DOps α) (a b : C α) : Bool :=
  if F.lt (cx F a) (cx F b) then true
  else if F.lt (cx F b) (cx F a) then false
  else F.lt (cy F a) (cy F b)

/-- transform.UniqueCoords: first occurrence of every distinct (x,y), input order kept. -/
def uniqueCoords (F : DOps α) : List (C α) → List (C α) → List (C α)
  | seen, [] => seen.reverse
  | seen, c :: rest =>
      if seen.any (eqXY F c) then uniqueCoords F seen rest else uniqueCoords F (c :: seen) rest

/-- Insertion into a list kept sorted by `less` (the in-order content of the TreeSet). -/
def insertSorted (less : C α → C α → Bool) (c : C α) : List (C α) → List (C α)
  | [] => [c]
  | d :: rest => if less c d then c :: d :: rest else d :: insertSorted less c rest

def sortBy (less : C α → C α → Bool) (cs : List (C α)) : List (C α) :=
  cs.foldl (fun acc c => insertSorted less c acc) []

/-- computeOctPts: the eight extreme points (x, x−y, y, x+y, …), first extremum wins. -/
def octPts (F : DOps α) (pts : List (C α)) : List (C α) :=
  match pts with
  | [] => []
  | p0 :: rest =>
    let upd (cur : C α) (better : C α → C α → Bool) (c : C α) : C α := if better c cur then c else cur
    let tests : List (C α → C α → Bool) :=
      [ fun c cur => F.lt (cx F c) (cx F cur),
        fun c cur => F.lt (F.sub (cx F c) (cy F c)) (F.sub (cx F cur) (cy F cur)),
        fun c cur => F.lt (cy F cur) (cy F c),
        fun c cur => F.lt (F.add (cx F cur) (cy F cur)) (F.add (cx F c) (cy F c)),
        fun c cur => F.lt (cx F cur) (cx F c),
        fun c cur => F.lt (F.sub (cx F cur) (cy F cur)) (F.sub (cx F c) (cy F c)),
        fun c cur => F.lt (cy F c) (cy F cur),
        fun c cur => F.lt (F.add (cx F c) (cy F c)) (F.add (cx F cur) (cy F cur)) ]
    tests.map fun t => rest.foldl (fun cur c => upd cur t c) p0

/-- computeOctRing: drop adjacent duplicates; fewer than three points → none. -/
def octRing (F : DOps α) (pts : List (C α)) : Option (List (C α)) :=
  let dedup := (octPts F pts).foldl (fun (acc : List (C α)) c =>
    match acc.getLast? with
    | some l => if eqXY F l c then acc else acc ++ [c]
    | none => [c]) []
  if dedup.length < 3 then none else some dedup

/-- the octagon ring closed (first point repeated at the end unless it is there already) -/
def closeRing (F : DOps α) (ring : List (C α)) : List (C α) :=
  match ring.head?, ring.getLast? with
  | some h, some l => if eqXY F h l then ring else ring ++ [h]
  | _, _ => ring

/-- TreeSet.Insert: kept sorted by IsLess2D, one entry per distinct (x,y) -/
def treeIns (F : DOps α) (set : List (C α)) (c : C α) : List (C α) :=
  if set.any (eqXY F c) then set else insertSorted (less2D F) c set

/-- padArray3 -/
def padTo3 (set : List (C α)) : List (C α) :=
  if set.length < 3 then
    match set with
    | [] => set
    | f :: _ => set ++ List.replicate (3 - set.length) f
  else set

/-- reduce(): points of the (closed) octagon plus every input point not inside or on it, as the
sorted content of a TreeSet; padded to three entries. -/
def reduce (F : DOps α) (inRing : P α → List (P α) → Bool) (pts : List (C α)) : List (C α) :=
  match octRing F pts with
  | none => pts
  | some ring =>
    let closed := closeRing F ring
    let poly := closed.map (xy F)
    let set := closed.foldl (treeIns F) []
    let set := pts.foldl (fun s c => if inRing (xy F c) poly then s else treeIns F s c) set
    padTo3 set

/-- one step of the swap loop of preSort: pts[0] ends up the minimum; the others keep the
displaced values -/
def swapStep (F : DOps α) (st : C α × List (C α)) (c : C α) : C α × List (C α) :=
  if F.lt (cy F c) (cy F st.1) || (feq F.toDetOps (cy F c) (cy F st.1) && F.lt (cx F c) (cx F st.1))
  then (c, st.2 ++ [st.1]) else (st.1, st.2 ++ [c])

/-- the radial comparator around the focal point -/
def radialLess (F : DOps α) (orient : P α → P α → P α → Int) (fp : P α) (v1 v2 : C α) : Bool :=
  let o := orient fp (xy F v1) (xy F v2)
  if o > 0 then false
  else if o < 0 then true
  else
    let dxp := F.sub (cx F v1) fp.1; let dyp := F.sub (cy F v1) fp.2
    let dxq := F.sub (cx F v2) fp.1; let dyq := F.sub (cy F v2) fp.2
    F.lt (F.add (F.mul dxp dxp) (F.mul dyp dyp)) (F.add (F.mul dxq dxq) (F.mul dyq dyq))

/-- preSort: bring the lowest (then leftmost) point to the front by successive swaps, then sort
everything radially around it. -/
def preSort (F : DOps α) (orient : P α → P α → P α → Int) (pts : List (C α)) : List (C α) :=
  match pts with
  | [] => []
  | p0 :: rest =>
    let st := rest.foldl (swapStep F) (p0, [])
    sortBy (radialLess F orient (xy F st.1)) (st.1 :: st.2)

/-- one iteration of the pop loop: state (p, stack, done) -/
def popStep (F : DOps α) (orient : P α → P α → P α → Int) (q : C α)
    (st : C α × List (C α) × Bool) : C α × List (C α) × Bool :=
  if st.2.2 then st else
  match st.2.1 with
  | top :: below =>
      if orient (xy F top) (xy F st.1) (xy F q) > 0 then (top, below, false) else (st.1, st.2.1, true)
  | [] => (st.1, st.2.1, true)

def popWhile (F : DOps α) (orient : P α → P α → P α → Int) (fuel : Nat) (p : C α) (stack : List (C α))
    (q : C α) : C α × List (C α) :=
  let r := (List.range fuel).foldl (fun st _ => popStep F orient q st) (p, stack, false)
  (r.1, r.2.1)

/-- one point of the scan: pop while the turn is not counter-clockwise, then push -/
def scanStep (F : DOps α) (orient : P α → P α → P α → Int) (stack : List (C α)) (q : C α) : List (C α) :=
  match stack with
  | p :: below =>
      let r := popWhile F orient (below.length + 1) p below q
      q :: r.1 :: r.2
  | [] => [q]

/-- grahamScan: the stack as a list with the top at the head. -/
def grahamScan (F : DOps α) (orient : P α → P α → P α → Int) (pts : List (C α)) : List (C α) :=
  match pts with
  | a :: b :: c :: rest => (a :: rest.foldl (scanStep F orient) [c, b, a]).reverse
  | _ => pts

/-- isBetween -/
def isBetween (F : DOps α) (orient : P α → P α → P α → Int) (c1 c2 c3 : C α) : Bool :=
  if orient (xy F c1) (xy F c2) (xy F c3) != 0 then false
  else
    let le (a b : α) : Bool := !(F.lt b a)
    let x1 := cx F c1; let x2 := cx F c2; let x3 := cx F c3
    let y1 := cy F c1; let y2 := cy F c2; let y3 := cy F c3
    (!(feq F.toDetOps x1 x3) && ((le x1 x2 && le x2 x3) || (le x3 x2 && le x2 x1))) ||
    (!(feq F.toDetOps y1 y3) && ((le y1 y2 && le y2 y3) || (le y3 y2 && le y2 y1)))

/-- cleanRing -/
def cleanRing (F : DOps α) (orient : P α → P α → P α → Int) (ring : List (C α)) : List (C α) :=
  let rec go (prev : Option (C α)) : List (C α) → List (C α)
    | cur :: nxt :: rest =>
        if eqXY F cur nxt then go prev (nxt :: rest)
        else match prev with
          | some p => if isBetween F orient p cur nxt then go prev (nxt :: rest)
                      else cur :: go (some cur) (nxt :: rest)
          | none => cur :: go (some cur) (nxt :: rest)
    | [last] => [last]
    | [] => []
  go none ring

inductive HullResult (α : Type) where
  | nil
  | point (c : C α)
  | line (cs : List (C α))
  | polygon (ring : List (C α))

/-- getConvexHull -/
def convexHull (F : DOps α) (orient : P α → P α → P α → Int) (inRing : P α → List (P α) → Bool)
    (input : List (C α)) : HullResult α :=
  if input.isEmpty then .nil else
  let uniq := uniqueCoords F [] input
  match uniq with
  | [p] => .point p
  | [p, q] => .line [p, q]
  | _ =>
    let reduced := if uniq.length > 50 then reduce F inRing uniq else uniq
    let sorted := preSort F orient reduced
    let scan := grahamScan F orient sorted
    let clean := cleanRing F orient scan
    if clean.length = 3 then .line (clean.take 2) else .polygon clean

end GeomVerif.Hull
