/-
Model of encoding/wkt/encode.go (Encoder.write and the writeFlatCoords* offset walkers), generic
in the number formatter, and of the GeoJSON geometry encoder's text for the max-decimal-digits /
bbox options (encoding/geojson/geojson.go: encode, nestedFloat64WithMaxDecimalDigits,
EncodeGeometryWithBBox, encodeBBox; field order of the Geometry struct).
-/
import GeomVerif.Model.Wkb
import GeomVerif.Model.Bounds

namespace GeomVerif.WktEnc
open GeomVerif GeomVerif.Wkb

abbrev Fmt := Ord → String

def joinWith (sep : String) : List String → String
  | [] => ""
  | [x] => x
  | x :: rest => x ++ sep ++ joinWith sep rest

def writeCoord (f : Fmt) (c : List Ord) : String := joinWith " " (c.map f)

/-- writeFlatCoords1: `(c1, c2, …)` over whole coordinates of `flat`. -/
def writeCoords1 (f : Fmt) (flat : List Ord) (stride : Nat) : String :=
  if stride = 0 then "()" else
  "(" ++ joinWith ", " ((chunkN stride ((flat.length + stride - 1) / stride) flat).map (writeCoord f)) ++ ")"

/-- writeFlatCoords1Ends (MultiPoint): a member with end ≤ start is EMPTY. -/
def writeCoords1Ends (f : Fmt) (flat : List Ord) : Nat → List Nat → List String
  | _, [] => []
  | start, e :: es =>
      (if e ≤ start then "EMPTY" else writeCoord f ((flat.drop start).take (e - start)))
        :: writeCoords1Ends f flat e es

/-- writeFlatCoords2: rings / lines; an entry with end ≤ start is EMPTY. -/
def writeCoords2Items (f : Fmt) (flat : List Ord) (stride : Nat) : Nat → List Nat → List String
  | _, [] => []
  | start, e :: es =>
      (if e ≤ start then "EMPTY" else writeCoords1 f ((flat.drop start).take (e - start)) stride)
        :: writeCoords2Items f flat stride e es

def writeCoords2 (f : Fmt) (flat : List Ord) (stride : Nat) (start : Nat) (ends : List Nat) : String :=
  "(" ++ joinWith ", " (writeCoords2Items f flat stride start ends) ++ ")"

def writeCoords3Items (f : Fmt) (flat : List Ord) (stride : Nat) : Nat → List (List Nat) → List String
  | _, [] => []
  | start, ends :: rest =>
      match ends.getLast? with
      | none => "EMPTY" :: writeCoords3Items f flat stride start rest
      | some last => writeCoords2 f flat stride start ends :: writeCoords3Items f flat stride last rest

def typeWord : WGeom → String
  | .point _ => "POINT " | .lineString _ => "LINESTRING " | .polygon _ => "POLYGON "
  | .multiPoint _ => "MULTIPOINT " | .multiLineString _ => "MULTILINESTRING "
  | .multiPolygon _ => "MULTIPOLYGON " | .collection .. => "GEOMETRYCOLLECTION "

/-- Encoder.write; fuel = nesting depth. -/
def write (f : Fmt) : Nat → WGeom → Outcome String
  | 0, _ => .err (.other "fuel")
  | fuel + 1, g =>
    let l := g.layoutOf
    let suffix : Outcome String :=
      match l with
      | 0 => (match g with
              | .collection .. => if g.isEmpty then .ok "" else .err (.unsupportedLayout 0)
              | _ => .err (.unsupportedLayout 0))
      | 1 => .ok "" | 2 => .ok "Z " | 3 => .ok "M " | 4 => .ok "ZM "
      | n => .err (.unsupportedLayout n)
    suffix.bind fun sfx =>
    let head := typeWord g ++ sfx
    let stride := l.stride
    match g with
    | .point p => .ok (head ++ if p.flat.isEmpty then "EMPTY" else "(" ++ writeCoord f (p.flat.take stride) ++ ")")
    | .lineString p => .ok (head ++ if p.flat.isEmpty then "EMPTY" else writeCoords1 f p.flat stride)
    | .polygon p => .ok (head ++ if p.flat.isEmpty then "EMPTY" else writeCoords2 f p.flat stride 0 p.ends)
    | .multiPoint p =>
        .ok (head ++ if p.ends.isEmpty then "EMPTY"
                     else "(" ++ joinWith ", " (writeCoords1Ends f p.flat 0 p.ends) ++ ")")
    | .multiLineString p =>
        .ok (head ++ if p.ends.isEmpty then "EMPTY" else writeCoords2 f p.flat stride 0 p.ends)
    | .multiPolygon p =>
        .ok (head ++ if p.endss.isEmpty then "EMPTY"
                     else "(" ++ joinWith ", " (writeCoords3Items f p.flat stride 0 p.endss) ++ ")")
    | .collection _ _ gs =>
        if gs.isEmpty then .ok (head ++ "EMPTY")
        else do
          let parts ← gs.mapM (write f fuel)
          .ok (head ++ "(" ++ joinWith ", " parts ++ ")")

/-! ### GeoJSON geometry text with the max-decimal-digits handler -/

def jsonArr (items : List String) : String := "[" ++ joinWith "," items ++ "]"

def jCoord (f : Fmt) (c : List Ord) : String := jsonArr (c.map f)
def jCoords1 (f : Fmt) (cs : List (List Ord)) : String := jsonArr (cs.map (jCoord f))
def jCoords2 (f : Fmt) (css : List (List (List Ord))) : String := jsonArr (css.map (jCoords1 f))
def jCoords3 (f : Fmt) (x : List (List (List (List Ord)))) : String := jsonArr (x.map (jCoords2 f))

end GeomVerif.WktEnc
