/-
Model of encoding/wkbcommon (binary.go, wkbcommon.go), encoding/wkb/wkb.go and
encoding/ewkb/ewkb.go: readers over a byte list with io.ReadFull semantics, writers
producing the bytes emitted so far plus the error (so a failing io.Writer can be
modelled), recursion through the part accessors and Push of Model/Multi.lean.
The readers also count what they allocate (elements passed to `make`) for C04.
-/
import GeomVerif.Model.Multi

namespace GeomVerif.Wkb
open GeomVerif

abbrev Byte := UInt8
abbrev Ord := UInt64     -- float64 bit pattern (opaque)

/-- geom.PointEmptyCoordHex -/
def nanBits : Ord := 0x7FF8000000000000

/-- The geometry values the codecs handle (`geom.T`). -/
inductive WGeom where
  | point (g : G1 Ord)
  | lineString (g : G1 Ord)
  | polygon (g : G2 Ord)
  | multiPoint (g : G2 Ord)
  | multiLineString (g : G2 Ord)
  | multiPolygon (g : G3 Ord)
  | collection (layout : Layout) (srid : Int) (gs : List WGeom)
  deriving Repr, BEq, Inhabited

mutual
def WGeom.layoutOf : WGeom → Layout
  | .point g | .lineString g => g.layout
  | .polygon g | .multiPoint g | .multiLineString g => g.layout
  | .multiPolygon g => g.layout
  | .collection l _ gs => if l ≠ 0 then l else WGeom.layoutsFold 0 gs
def WGeom.layoutsFold (acc : Layout) : List WGeom → Layout
  | [] => acc
  | g :: gs => WGeom.layoutsFold (GC.layoutStep acc g.layoutOf) gs
end

mutual
def WGeom.isEmpty : WGeom → Bool
  | .point g | .lineString g => g.flat.isEmpty
  | .polygon g | .multiPoint g | .multiLineString g => g.flat.isEmpty
  | .multiPolygon g => g.flat.isEmpty
  | .collection _ _ gs => WGeom.allEmpty gs
def WGeom.allEmpty : List WGeom → Bool
  | [] => true
  | g :: gs => g.isEmpty && WGeom.allEmpty gs
end

def WGeom.srid : WGeom → Int
  | .point g | .lineString g => g.srid
  | .polygon g | .multiPoint g | .multiLineString g => g.srid
  | .multiPolygon g => g.srid
  | .collection _ s _ => s

/-! ## Byte-level primitives (binary.go) -/

/-- 4 bytes of `n mod 2^32` in the given order (`ndr` = little endian). -/
def u32Bytes (ndr : Bool) (n : Nat) : List Byte :=
  let le := [UInt8.ofNat (n % 256), UInt8.ofNat (n / 256 % 256), UInt8.ofNat (n / 65536 % 256),
             UInt8.ofNat (n / 16777216 % 256)]
  if ndr then le else le.reverse

def u64Bytes (ndr : Bool) (v : Ord) : List Byte :=
  let n := v.toNat
  let le := (List.range 8).map fun i => UInt8.ofNat (n / 256 ^ i % 256)
  if ndr then le else le.reverse

def natOfLE : List Byte → Nat
  | [] => 0
  | b :: bs => b.toNat + 256 * natOfLE bs

/-- io.ReadFull(r, buf[:n]): `eof` when nothing is left, `unexpectedEof` on a short read,
success without reading when `n = 0`. -/
def readFull (n : Nat) (bs : List Byte) : Outcome (List Byte × List Byte) :=
  if n = 0 then .ok ([], bs)
  else if bs.isEmpty then .err .eof
  else if bs.length < n then .err .unexpectedEof
  else .ok (bs.take n, bs.drop n)

def readByte (bs : List Byte) : Outcome (Byte × List Byte) := do
  let (b, rest) ← readFull 1 bs
  .ok (b.headD 0, rest)

def readU32 (ndr : Bool) (bs : List Byte) : Outcome (Nat × List Byte) := do
  let (b, rest) ← readFull 4 bs
  .ok (natOfLE (if ndr then b else b.reverse), rest)

def chunk8 : Nat → List Byte → List (List Byte)
  | 0, _ => []
  | n + 1, bs => bs.take 8 :: chunk8 n (bs.drop 8)

def readFloats (ndr : Bool) (n : Nat) (bs : List Byte) : Outcome (List Ord × List Byte) := do
  let (b, rest) ← readFull (8 * n) bs
  .ok ((chunk8 n b).map fun c => UInt64.ofNat (natOfLE (if ndr then c else c.reverse)), rest)

def writeFloats (ndr : Bool) (xs : List Ord) : List Byte := (xs.map (u64Bytes ndr)).flatten

/-! ## Limits and the allocation counter -/

/-- wkbcommon.MaxGeometryElements[level]; `none` = disabled (negative). -/
structure Limits where
  l1 : Option Nat := none
  l2 : Option Nat := none
  l3 : Option Nat := none
  deriving Repr

def exceeds (lim : Option Nat) (n : Nat) : Bool :=
  match lim with
  | some l => n > l
  | none => false

/-- Reader state threaded through: remaining bytes and elements allocated so far. -/
structure RS where
  rest : List Byte
  alloc : Nat := 0

/-- ReadFlatCoords1: count, limit check at level 1, then `make(n*stride)` floats (+ the same
number of bytes/8 for the read buffer), then the data. -/
def readFlatCoords1 (lim : Limits) (ndr : Bool) (stride : Nat) (s : RS) :
    Outcome (List Ord × RS) := do
  let (n, rest) ← readU32 ndr s.rest
  if exceeds lim.l1 n then .err (.tooLarge 1 n (lim.l1.getD 0))
  else do
    let a := s.alloc + 2 * (n * stride)
    let (fs, rest) ← readFloats ndr (n * stride) rest
    .ok (fs, ⟨rest, a⟩)

def readRings (lim : Limits) (ndr : Bool) (stride : Nat) :
    Nat → List Ord → List Nat → RS → Outcome (List Ord × List Nat × RS)
  | 0, flat, ends, s => .ok (flat, ends, s)
  | k + 1, flat, ends, s => do
      let (fs, s) ← readFlatCoords1 lim ndr stride s
      readRings lim ndr stride k (flat ++ fs) (ends ++ [(flat ++ fs).length]) s

/-- ReadFlatCoords2: count, limit check at level 2, `make([]int, n)`, then the rings. -/
def readFlatCoords2 (lim : Limits) (ndr : Bool) (stride : Nat) (s : RS) :
    Outcome (List Ord × List Nat × RS) := do
  let (n, rest) ← readU32 ndr s.rest
  if exceeds lim.l2 n then .err (.tooLarge 2 n (lim.l2.getD 0))
  else readRings lim ndr stride n [] [] ⟨rest, s.alloc + n⟩

/-! ## Type codes -/

def pointID := 1
def lineStringID := 2
def polygonID := 3
def multiPointID := 4
def multiLineStringID := 5
def multiPolygonID := 6
def geometryCollectionID := 7

def WGeom.typeID : WGeom → Nat
  | .point _ => pointID
  | .lineString _ => lineStringID
  | .polygon _ => polygonID
  | .multiPoint _ => multiPointID
  | .multiLineString _ => multiLineStringID
  | .multiPolygon _ => multiPolygonID
  | .collection _ _ _ => geometryCollectionID

/-- wkb.go: ISO dimension offsets. -/
def wkbDimOffset : Layout → Option Nat
  | 1 => some 0
  | 2 => some 1000
  | 3 => some 2000
  | 4 => some 3000
  | _ => none

def ewkbZ : Nat := 0x80000000
def ewkbM : Nat := 0x40000000
def ewkbSRID : Nat := 0x20000000

def ewkbDimFlags : Layout → Option Nat
  | 1 => some 0
  | 2 => some ewkbZ
  | 3 => some ewkbM
  | 4 => some (ewkbZ + ewkbM)
  | _ => none

/-! ## Writers: bytes emitted so far and the error, if any -/

abbrev WR := List Byte × Option Err

def wOk (bs : List Byte) : WR := (bs, none)
def wSeq (a : WR) (b : Unit → WR) : WR :=
  match a.2 with
  | some _ => a
  | none => let r := b (); (a.1 ++ r.1, r.2)

def writeFlatCoords1 (ndr : Bool) (flat : List Ord) (stride : Nat) : WR :=
  if stride = 0 then ([], some (.other "divide by zero"))
  else wOk (u32Bytes ndr (flat.length / stride) ++ writeFloats ndr flat)

def writeRings (ndr : Bool) (flat : List Ord) (stride : Nat) : List Nat → Nat → WR
  | [], _ => wOk []
  | e :: ends, offset =>
      wSeq (writeFlatCoords1 ndr ((flat.drop offset).take (e - offset)) stride)
        fun _ => writeRings ndr flat stride ends e

def writeFlatCoords2 (ndr : Bool) (flat : List Ord) (ends : List Nat) (stride : Nat) : WR :=
  wSeq (wOk (u32Bytes ndr ends.length)) fun _ => writeRings ndr flat stride ends 0

/-- Parts of a multi geometry through the accessors of Model/Multi.lean. -/
def partsOf : WGeom → List WGeom
  | .multiPoint g => (List.range g.num).map fun i =>
      match MPoint.point g i with | .ok p => .point p | _ => .point ⟨g.layout, g.stride, [], 0⟩
  | .multiLineString g => (List.range g.num).map fun i =>
      match g.part i with | .ok p => .lineString p | _ => .lineString ⟨g.layout, g.stride, [], 0⟩
  | .multiPolygon g => (List.range g.num).map fun i =>
      match g.polygon i with | .ok p => .polygon p | _ => .polygon ⟨g.layout, g.stride, [], [], 0⟩
  | .collection _ _ gs => gs
  | _ => []

/-- One geometry header + body; multi types recurse over `partsOf` with fuel = nesting depth. -/
def writeWkb (ndr nanMode : Bool) : Nat → WGeom → WR
  | 0, _ => ([], some (.other "fuel"))
  | fuel + 1, g =>
    wSeq (wOk [if ndr then 1 else 0]) fun _ =>
      let l := g.layoutOf
      let off : Outcome Nat :=
        if l = 0 then
          (match g with
           | .collection _ _ _ => if g.isEmpty then .ok 0 else .err (.unsupportedLayout 0)
           | _ => .err (.unsupportedLayout 0))
        else match wkbDimOffset l with
          | some o => .ok o
          | none => .err (.unsupportedLayout l)
      match off with
      | .err e => ([], some e)
      | .panic _ => ([], some (.other "panic"))
      | .ok o =>
        wSeq (wOk (u32Bytes ndr (g.typeID + o))) fun _ =>
          match g with
          | .point p =>
              if p.flat.isEmpty then
                (if nanMode then wOk (writeFloats ndr (List.replicate p.stride nanBits))
                 else ([], some (.other "cannot encode empty Point in WKB")))
              else wOk (writeFloats ndr p.flat)
          | .lineString p => writeFlatCoords1 ndr p.flat p.stride
          | .polygon p => writeFlatCoords2 ndr p.flat p.ends p.stride
          | _ =>
              let ps := partsOf g
              wSeq (wOk (u32Bytes ndr ps.length)) fun _ =>
                ps.foldl (fun acc p => wSeq acc fun _ => writeWkb ndr nanMode fuel p) (wOk [])

def writeEwkb (ndr : Bool) : Nat → WGeom → WR
  | 0, _ => ([], some (.other "fuel"))
  | fuel + 1, g =>
    wSeq (wOk [if ndr then 1 else 0]) fun _ =>
      let l := g.layoutOf
      let flags : Outcome Nat :=
        if l = 0 then
          (match g with
           | .collection _ _ _ => if g.isEmpty then .ok 0 else .err (.unsupportedLayout 0)
           | _ => .err (.unsupportedLayout 0))
        else match ewkbDimFlags l with
          | some o => .ok o
          | none => .err (.unsupportedLayout l)
      match flags with
      | .err e => ([], some e)
      | .panic _ => ([], some (.other "panic"))
      | .ok fl =>
        let srid := g.srid
        let code := g.typeID + fl + (if srid ≠ 0 then ewkbSRID else 0)
        wSeq (wOk (u32Bytes ndr code ++ (if srid ≠ 0 then u32Bytes ndr (srid % 4294967296).toNat else [])))
          fun _ =>
          match g with
          | .point p =>
              if p.flat.isEmpty then wOk (writeFloats ndr (List.replicate p.stride nanBits))
              else wOk (writeFloats ndr p.flat)
          | .lineString p => writeFlatCoords1 ndr p.flat p.stride
          | .polygon p => writeFlatCoords2 ndr p.flat p.ends p.stride
          | _ =>
              let ps := partsOf g
              wSeq (wOk (u32Bytes ndr ps.length)) fun _ =>
                ps.foldl (fun acc p => wSeq acc fun _ => writeEwkb ndr fuel p) (wOk [])

/-- Nesting depth (fuel needed by the writers). -/
def depthList (f : WGeom → Nat) : List WGeom → Nat
  | [] => 0
  | g :: gs => max (f g) (depthList f gs)

mutual
def WGeom.depth : WGeom → Nat
  | .collection _ _ gs => 2 + WGeom.depths gs
  | _ => 2
def WGeom.depths : List WGeom → Nat
  | [] => 0
  | g :: gs => max g.depth (WGeom.depths gs)
end

/-! ## Readers -/

/-- geom.NewPointFlatMaybeEmpty -/
def pointMaybeEmpty (l : Layout) (flat : List Ord) : G1 Ord :=
  if flat.all (· == nanBits) then ⟨l, l.stride, [], 0⟩ else ⟨l, l.stride, flat, 0⟩

def setSrid (g : WGeom) (srid : Int) : WGeom :=
  match g with
  | .point p => .point { p with srid := srid }
  | .lineString p => .lineString { p with srid := srid }
  | .polygon p => .polygon { p with srid := srid }
  | .multiPoint p => .multiPoint { p with srid := srid }
  | .multiLineString p => .multiLineString { p with srid := srid }
  | .multiPolygon p => .multiPolygon { p with srid := srid }
  | .collection l _ gs => .collection l srid gs

/-- `for range n { g := Read(r); push(g) }`: stops at the first failing read or push, so a forged
count costs nothing beyond the members actually present. -/
def readFold {σ : Type} (rd : RS → Outcome (WGeom × RS)) (step : σ → WGeom → Outcome σ) :
    Nat → σ → RS → Outcome (σ × RS)
  | 0, a, s => .ok (a, s)
  | k + 1, a, s => do
      let (g, s') ← rd s
      let a' ← step a g
      readFold rd step k a' s'

/-- Shared body of wkb.Read / ewkb.Read. `ewkb` selects header parsing, empty-point handling and
the limit on the collection count. Fuel bounds the recursion (every call consumes ≥ 5 bytes). -/
def readGeom (ewkb nanMode : Bool) (lim : Limits) : Nat → RS → Outcome (WGeom × RS)
  | 0, _ => .err (.other "fuel")
  | fuel + 1, s => do
    let (bo, rest) ← readByte s.rest
    let ndr ← (if bo = 0 then .ok false else if bo = 1 then .ok true
               else .err (.unknownByteOrder bo.toNat) : Outcome Bool)
    let (t, rest) ← readU32 ndr rest
    -- layout, SRID and base type
    let hdr : Outcome (Layout × Nat × Int × List Byte) :=
      if ewkb then
        let z := t / ewkbZ % 2 == 1
        let m := t / ewkbM % 2 == 1
        let l : Layout := if z && m then 4 else if z then 2 else if m then 3 else 1
        let base := t % ewkbSRID
        if t / ewkbSRID % 2 == 1 then do
          let (sr, rest) ← readU32 ndr rest
          .ok (l, base, (sr : Int), rest)
        else .ok (l, base, 0, rest)
      else
        match 1000 * (t / 1000) with
        | 0 => .ok (1, t % 1000, 0, rest)
        | 1000 => .ok (2, t % 1000, 0, rest)
        | 2000 => .ok (3, t % 1000, 0, rest)
        | 3000 => .ok (4, t % 1000, 0, rest)
        | _ => .err (.unknownType t)
    let (l, base, srid, rest) ← hdr
    let s : RS := ⟨rest, s.alloc⟩
    let stride := l.stride
    let rd := readGeom ewkb nanMode lim fuel
    if base = pointID then do
      let a := s.alloc + 2 * stride
      let (fs, rest) ← readFloats ndr stride s.rest
      let p : G1 Ord := if ewkb || nanMode then pointMaybeEmpty l fs else ⟨l, stride, fs, 0⟩
      .ok (.point { p with srid := srid }, ⟨rest, a⟩)
    else if base = lineStringID then do
      let (fs, s) ← readFlatCoords1 lim ndr stride s
      .ok (.lineString ⟨l, stride, fs, srid⟩, s)
    else if base = polygonID then do
      let (fs, ends, s) ← readFlatCoords2 lim ndr stride s
      .ok (.polygon ⟨l, stride, fs, ends, srid⟩, s)
    else if base = multiPointID then do
      let (n, rest) ← readU32 ndr s.rest
      if exceeds lim.l1 n then .err (.tooLarge 1 n (lim.l1.getD 0)) else do
      let (g, st) ← readFold rd (fun (g : G2 Ord) m => match m with
        | .point p => MPoint.push g p
        | _ => .err .unexpectedType) n ⟨l, stride, [], [], srid⟩ ⟨rest, s.alloc⟩
      .ok (.multiPoint g, st)
    else if base = multiLineStringID then do
      let (n, rest) ← readU32 ndr s.rest
      if exceeds lim.l2 n then .err (.tooLarge 2 n (lim.l2.getD 0)) else do
      let (g, st) ← readFold rd (fun (g : G2 Ord) m => match m with
        | .lineString p => g.push p
        | _ => .err .unexpectedType) n ⟨l, stride, [], [], srid⟩ ⟨rest, s.alloc⟩
      .ok (.multiLineString g, st)
    else if base = multiPolygonID then do
      let (n, rest) ← readU32 ndr s.rest
      if exceeds lim.l3 n then .err (.tooLarge 3 n (lim.l3.getD 0)) else do
      let (g, st) ← readFold rd (fun (g : G3 Ord) m => match m with
        | .polygon p => g.push p
        | _ => .err .unexpectedType) n ⟨l, stride, [], [], srid⟩ ⟨rest, s.alloc⟩
      .ok (.multiPolygon g, st)
    else if base = geometryCollectionID then do
      let (n, rest) ← readU32 ndr s.rest
      if ewkb && exceeds lim.l1 n then .err (.tooLarge 1 n (lim.l1.getD 0)) else do
      -- gc.Push never fails here (no fixed layout yet)
      let (gs, st) ← readFold rd (fun (gs : List WGeom) m => .ok (gs ++ [m])) n [] ⟨rest, s.alloc⟩
      -- an EMPTY collection gets the layout of its type code
      let fixed : Layout := if gs.isEmpty then l else 0
      .ok (.collection fixed srid gs, st)
    else .err .unsupportedType

def readWkb (nanMode : Bool) (lim : Limits) (bs : List Byte) : Outcome (WGeom × RS) :=
  readGeom false nanMode lim (bs.length + 1) ⟨bs, 0⟩

def readEwkb (lim : Limits) (bs : List Byte) : Outcome (WGeom × RS) :=
  readGeom true false lim (bs.length + 1) ⟨bs, 0⟩

end GeomVerif.Wkb
