/-
Model of the WKT decoder (encoding/wkt: lex.go, lex_stack.go, lex_types.go, lex_errors.go,
wkt.go Unmarshal and the goyacc driver loop of wkt.gen.go).

* The lexer is a byte-for-byte port (Go indexes the string by byte and converts to rune, so
  only Latin-1 classifications of unicode.IsLetter / IsSpace / IsDigit matter; a NUL byte is
  indistinguishable from end of input).
* The LR driver loop is a port of `wktParserImpl.Parse`, running the tables and the semantic
  actions that `harness extract` regenerates from wkt.gen.go on every run
  (Generated/WktTables.lean); the meaning of each action constructor is given here.
* Every `panic(...)` of lex.go / lex_stack.go and every slice expression that can fail is an
  explicit `.panic` outcome, so that "no assertion is reachable" is a statement about this model.
* Numbers: the run of number characters goes to `parseNum` (strconv.ParseFloat; reference in
  Spec/ParseFloat.lean), ordinates are carried as IEEE bit patterns, `feq` is float64 `==`.
-/
import GeomVerif.Model.Wkb
import GeomVerif.Model.WktAct
import GeomVerif.Generated.WktTables

namespace GeomVerif.WktParse
open GeomVerif GeomVerif.Wkb GeomVerif.WktAct

/-! ## Character classes (Latin-1 part of the unicode tables) -/

def isLetter (b : Nat) : Bool :=
  (65 ≤ b && b ≤ 90) || (97 ≤ b && b ≤ 122) || b == 0xAA || b == 0xB5 || b == 0xBA ||
  (0xC0 ≤ b && b ≤ 0xD6) || (0xD8 ≤ b && b ≤ 0xF6) || (0xF8 ≤ b && b ≤ 0xFF)

def isSpace (b : Nat) : Bool :=
  b == 9 || b == 10 || b == 11 || b == 12 || b == 13 || b == 32 || b == 0x85 || b == 0xA0

def isDigit (b : Nat) : Bool := 48 ≤ b && b ≤ 57

/-- isNumRune: `- . e E +` or a digit. -/
def isNumRune (b : Nat) : Bool := b == 45 || b == 46 || b == 101 || b == 69 || b == 43 || isDigit b

/-- isValidFirstNumRune: a number rune other than `+`, `e`, `E`. -/
def isValidFirstNumRune (b : Nat) : Bool := b != 43 && b != 101 && b != 69 && isNumRune b

/-- unicode.ToUpper restricted to what can matter: ASCII letters fold, every other Latin-1
letter maps to something that is not an ASCII letter (so it can never complete a keyword);
such letters are represented by themselves. -/
def toUpper (b : Nat) : Nat := if 97 ≤ b && b ≤ 122 then b - 32 else b

/-! ## Positions, errors, layout stack -/

structure Pos where
  wktPos : Nat := 0
  lineNum : Nat := 0
  lineStart : Nat := 0
  linePos : Nat := 0
  deriving Repr, BEq, DecidableEq, Inhabited

def Pos.advanceOne (p : Pos) : Pos := { p with wktPos := p.wktPos + 1, linePos := p.linePos + 1 }
def Pos.advanceLine (p : Pos) : Pos :=
  { wktPos := p.wktPos + 1, lineNum := p.lineNum + 1, lineStart := p.wktPos + 1, linePos := 0 }

structure SynErr where
  problem : String
  lineNum : Nat          -- already +1
  lineStart : Nat
  linePos : Nat
  hint : String
  deriving Repr, BEq, DecidableEq, Inhabited

inductive PErr where
  | syn (e : SynErr)
  | geomErr (e : Err)       -- an error of the geom package handed to setError
  deriving Repr, BEq, DecidableEq, Inhabited

structure Frame where
  layout : Nat
  inBase : Bool
  mustEmpty : Bool := false
  deriving Repr, BEq, DecidableEq, Inhabited

/-- The calls the semantic actions make into the layout-stack logic of lex.go, in order (ghost
state: recorded by the model so that every run can be checked against the call protocol under
which Properties/C06 proves the assertions unreachable). -/
inductive Ev where
  | baseAllowed | setLayout (l : Nat) | pushFrame (l : Nat) | popFrame | nonEmptyAllowed
  | baseEmptyAllowed | point (cl : List Ord) | lineCheck (cl : List Ord) | ringCheck (cl : List Ord)
  | atEnd
  deriving Repr, BEq, DecidableEq, Inhabited

/-- The lexer object (`wktLex`) without the immutable input. `lyt` has the top frame first. -/
structure Lx where
  cur : Pos := {}
  last : Pos := {}
  ret : Option WGeom := none
  lyt : List Frame := [⟨0, true, false⟩]
  lastErr : Option PErr := none
  trace : List Ev := []       -- ghost: events so far, latest first
  deriving Inhabited

/-- Result of a step that may hit a Go panic. -/
abbrev P := Except String

def layoutName (l : Nat) : P String :=
  match l with
  | 0 => pure "not XYM" | 1 => pure "XY" | 3 => pure "XYM" | 2 => pure "XYZ" | 4 => pure "XYZM"
  | n => throw s!"unknown geom.Layout {n}"

def assertValidLayout (l : Nat) : P Unit := if l ≤ 4 then pure () else throw s!"unknown geom.Layout {l}"

def isCompatibleLayout (outer inner : Nat) : P Bool := do
  assertValidLayout outer
  assertValidLayout inner
  pure (!(outer != inner && outer != 0))

def isValidStrideForLayout (stride l : Nat) : P Bool :=
  match l with
  | 0 => pure true
  | 1 => pure (stride == 2)
  | 3 => pure (stride == 3)
  | 2 => pure (stride == 3)
  | 4 => pure (stride == 4)
  | n => throw s!"unknown geom.Layout {n}"

def defaultLayoutForStride (stride : Nat) : P Nat :=
  match stride with
  | 2 => pure 1 | 3 => pure 2 | 4 => pure 4
  | n => throw s!"unsupported stride {n}"

namespace Stack

def top (s : List Frame) : P Frame :=
  match s with
  | [] => throw "layout stack is empty"
  | f :: _ => pure f

def atTopLevel (s : List Frame) : Bool := s.length == 1

def push (s : List Frame) (layout : Nat) : P (List Frame) := do
  let t ← top s
  match layout with
  | 0 => let t' ← top s; pure (⟨t'.layout, t.inBase, false⟩ :: s)
  | 3 | 2 | 4 => pure (⟨layout, false, false⟩ :: s)
  | n => throw s!"unknown geom.Layout {n}"

def pop (s : List Frame) : P (Nat × List Frame) := do
  let _ ← top s
  if atTopLevel s then throw "top level stack frame should never be popped"
  let t ← top s
  pure (t.layout, s.tail)

def setTopLayout (s : List Frame) (layout : Nat) : P (List Frame) :=
  match layout with
  | 1 | 3 | 2 | 4 => do let t ← top s; pure ({ t with layout := layout } :: s.tail)
  | 0 => throw "setTopLayout should not be called with geom.NoLayout"
  | n => throw s!"unknown geom.Layout {n}"

def setTopMustEmpty (s : List Frame) (b : Bool) : P (List Frame) := do
  let t ← top s
  if t.layout != 3 then throw "setTopNextPointMustBeEmpty called for non-XYM geometry collection"
  let t ← top s
  pure ({ t with mustEmpty := b } :: s.tail)

end Stack

/-! ## Lexer -/

abbrev Input := Array UInt8

def peek (w : Input) (l : Lx) : Nat :=
  if l.cur.wktPos == w.size then 0 else (w.getD l.cur.wktPos 0).toNat

def next (w : Input) (l : Lx) : Lx :=
  let c := peek w l
  if c != 0 then
    if c == 10 then { l with cur := l.cur.advanceLine } else { l with cur := l.cur.advanceOne }
  else l

/-- trimLeft; fuel = bytes left. -/
def trimLeftN (w : Input) : Nat → Lx → Lx
  | 0, l => l
  | n + 1, l =>
      let c := peek w l
      if c == 0 || !isSpace c then l else trimLeftN w n (next w l)

def trimLeft (w : Input) (l : Lx) : Lx := trimLeftN w (w.size - l.cur.wktPos) l

def setError (l : Lx) (e : PErr) : Lx := if l.lastErr.isNone then { l with lastErr := some e } else l

def setSyntaxError (l : Lx) (problem hint : String) : Lx :=
  setError l (.syn ⟨problem, l.last.lineNum + 1, l.last.lineStart, l.last.linePos, hint⟩)

def trimPrefix (pre s : String) : String := if s.startsWith pre then (s.drop pre.length).toString else s

/-- (*wktLex).Error -/
def lexErrorCall (l : Lx) (s : String) : Lx := setSyntaxError l (trimPrefix "syntax error: " s) ""
def setLexError (l : Lx) (what : String) : Lx := lexErrorCall l ("invalid " ++ what)
def setParseError (l : Lx) (problem hint : String) : Lx := setSyntaxError l problem hint

def curLayout (l : Lx) : P Nat := do let t ← Stack.top l.lyt; pure t.layout

def keywordNames : List String :=
  ["EMPTY", "POINT", "POINTM", "POINTZ", "POINTZM", "LINESTRING", "LINESTRINGM", "LINESTRINGZ",
   "LINESTRINGZM", "POLYGON", "POLYGONM", "POLYGONZ", "POLYGONZM", "MULTIPOINT", "MULTIPOINTM",
   "MULTIPOINTZ", "MULTIPOINTZM", "MULTILINESTRING", "MULTILINESTRINGM", "MULTILINESTRINGZ",
   "MULTILINESTRINGZM", "MULTIPOLYGON", "MULTIPOLYGONM", "MULTIPOLYGONZ", "MULTIPOLYGONZM",
   "GEOMETRYCOLLECTION", "GEOMETRYCOLLECTIONM", "GEOMETRYCOLLECTIONZ", "GEOMETRYCOLLECTIONZM"]

def lookupTok (name : String) : Int :=
  match Generated.wktTokenConsts.find? (·.1 == name) with
  | some (_, n) => n
  | none => 0

/-- keywordToken: 0 (`eof`) when the string is not a keyword. -/
def keywordToken (s : String) : Int := if keywordNames.contains s then lookupTok s else 0

/-- The letters of a keyword, upper-cased; fuel = bytes left. -/
def letters (w : Input) : Nat → Lx → List Nat → Lx × List Nat
  | 0, l, acc => (l, acc.reverse)
  | n + 1, l, acc =>
      let c := peek w l
      if !isLetter c then (l, acc.reverse) else letters w n (next w l) (toUpper c :: acc)

def strOfCodes (cs : List Nat) : String := String.ofList (cs.map Char.ofNat)

def lexKeyword (w : Input) (l : Lx) : Lx × Int :=
  let (l, cs) := letters w (w.size - l.cur.wktPos) l []
  let s := strOfCodes cs
  let (l, s) :=
    if s != "EMPTY" then
      let l := trimLeft w l
      let (l, s) := if toUpper (peek w l) == 90 then (next w l, s.push 'Z') else (l, s)
      if toUpper (peek w l) == 77 then (next w l, s.push 'M') else (l, s)
    else (l, s)
  let t := keywordToken s
  if t == 0 then (setLexError l "keyword", 0) else (l, t)

def numRun (w : Input) : Nat → Lx → List Nat → Lx × List Nat
  | 0, l, acc => (l, acc.reverse)
  | n + 1, l, acc =>
      let c := peek w l
      if !isNumRune c then (l, acc.reverse) else numRun w n (next w l) (c :: acc)

/-- Lex: returns the new lexer state, the token (`char`) and, for NUM, the value. -/
def lex (parseNum : List Char → Option Ord) (w : Input) (l : Lx) : Lx × Int × Option Ord :=
  let l := trimLeft w l
  let l := { l with last := l.cur }
  let c := peek w l
  if c == 0 then (l, 0, none)
  else if c == 40 || c == 41 || c == 44 then (next w l, c, none)
  else if isLetter c then
    let (l, t) := lexKeyword w l
    (l, t, none)
  else if isValidFirstNumRune c then
    let (l, cs) := numRun w (w.size - l.cur.wktPos) l []
    match parseNum (cs.map Char.ofNat) with
    | none => (setLexError l "number", 0, none)
    | some v => (l, lookupTok "NUM", some v)
  else (setLexError (next w l) "character", 0, none)

/-! ## Semantic values -/

structure FR where
  flat : List Ord := []
  ends : List Nat := []
  deriving Repr, BEq, Inhabited

structure MPR where
  flat : List Ord := []
  endss : List (List Nat) := []
  deriving Repr, BEq, Inhabited

/-- wktSymType (all members present at once, as in the Go struct). -/
structure Sym where
  yys : Int := 0
  geom : Option WGeom := none
  coord : Ord := 0
  coordList : List Ord := []
  fr : FR := {}
  mp : MPR := {}
  geomList : List WGeom := []
  coll : Option (Layout × List WGeom) := none      -- *geom.GeometryCollection: fixed layout, members
  deriving Inhabited

def makeFR (cl : List Ord) : FR := ⟨cl, [cl.length]⟩

def appendFR (p1 p2 : FR) : FR :=
  let ends2 := match p1.ends.getLast? with
    | some last => p2.ends.map (· + last)
    | none => p2.ends
  ⟨p1.flat ++ p2.flat, p1.ends ++ ends2⟩

/-- `p.flatCoords == nil`: in this parser a coordinate slice is nil exactly when it is empty
(slices are only ever created by `[]float64{x}`, `[]float64(nil)` and `append`). -/
def makeMP (p : FR) : MPR :=
  if p.flat.isEmpty then ⟨[], [[]]⟩ else ⟨p.flat, [p.ends]⟩

def lastNonEmptyEnd : List (List Nat) → Nat
  | [] => 0
  | es :: rest =>          -- list given last-first
      match es.getLast? with
      | some e => e
      | none => lastNonEmptyEnd rest

def appendMP (p1 p2 : MPR) : MPR :=
  let off := lastNonEmptyEnd p1.endss.reverse
  let endss2 := if off > 0 then p2.endss.map (·.map (· + off)) else p2.endss
  ⟨p1.flat ++ p2.flat, p1.endss ++ endss2⟩

/-! ## Validation helpers of lex.go -/

/-- Outcome of a semantic action: carry on, or `return 1`. -/
inductive AR where
  | go (l : Lx) (v : Sym)
  | stop (l : Lx)
  deriving Inhabited

def setLayoutIfNoLayout (l : Lx) (layout : Nat) : P Lx := do
  if (← curLayout l) == 0 then pure { l with lyt := ← Stack.setTopLayout l.lyt layout } else pure l

def setIncorrectLayoutError (l : Lx) (incorrect : Nat) (hint : String) : P Lx := do
  let a ← layoutName (← curLayout l)
  let b ← layoutName incorrect
  pure (setParseError l s!"mixed dimensionality, parsed layout is {a} but encountered layout of {b}" hint)

def mVariantError (l : Lx) : P Lx :=
  setIncorrectLayoutError l 0 "the M variant is required for non-empty XYM geometries in GEOMETRYCOLLECTIONs"

/-- validateStrideAndSetDefaultLayoutIfNoLayout -/
def validateStride (l : Lx) (stride : Nat) : P (Lx × Bool) := do
  let cl ← curLayout l
  if !(← isValidStrideForLayout stride cl) then
    let name ← layoutName cl
    let l := setParseError l
      s!"mixed dimensionality, parsed layout is {name} so expecting {Layout.stride cl} coords but got {stride} coords" ""
    pure (l, false)
  else
    let l ← setLayoutIfNoLayout l (← defaultLayoutForStride stride)
    pure (l, true)

def validateNonEmptyGeometryAllowed (l : Lx) : P (Lx × Bool) := do
  let t ← Stack.top l.lyt
  if t.mustEmpty then
    if (← curLayout l) != 3 then throw "nextPointMustBeEmpty is true but layout is not XYM"
    pure (← mVariantError l, false)
  else pure (l, true)

def validateAndSetLayoutIfNoLayout (l : Lx) (layout : Nat) : P (Lx × Bool) := do
  if !(← isCompatibleLayout (← curLayout l) layout) then
    pure (← setIncorrectLayoutError l layout "", false)
  else pure (← setLayoutIfNoLayout l layout, true)

def validateBaseGeometryTypeAllowed (l : Lx) : P (Lx × Bool) := do
  let t ← Stack.top l.lyt
  if !t.inBase then
    if (← curLayout l) == 3 then
      pure ({ l with lyt := ← Stack.setTopMustEmpty l.lyt true }, true)
    else pure (l, true)
  else
    if (← curLayout l) == 3 then
      if Stack.atTopLevel l.lyt then throw "base geometry check for XYM layout should not happen at top level"
      pure (← mVariantError l, false)
    else pure (l, true)

def validateBaseTypeEmptyAllowed (l : Lx) : P (Lx × Bool) := do
  let t ← Stack.top l.lyt
  if !t.inBase then
    if (← curLayout l) == 3 then
      pure ({ l with lyt := ← Stack.setTopMustEmpty l.lyt false }, true)
    else pure (l, true)
  else
    match ← curLayout l with
    | 0 => pure (← setLayoutIfNoLayout l 1, true)
    | 1 => pure (l, true)
    | _ => pure (← setIncorrectLayoutError l 1 "EMPTY is XY layout in base geometry type", false)

def validateAndPushLayoutStackFrame (l : Lx) (layout : Nat) : P (Lx × Bool) := do
  if layout != 0 && !(← isCompatibleLayout (← curLayout l) layout) then
    pure (← setIncorrectLayoutError l layout "", false)
  else pure ({ l with lyt := ← Stack.push l.lyt layout }, true)

def validateAndPopLayoutStackFrame (l : Lx) : P (Lx × Bool) := do
  let (popped, rest) ← Stack.pop l.lyt
  let l := { l with lyt := rest }
  if !(← isCompatibleLayout (← curLayout l) popped) then throw "uncaught layout incompatibility"
  pure (← setLayoutIfNoLayout l popped, true)

def validateLayoutStackAtEnd (l : Lx) : P (Lx × Bool) := do
  if !Stack.atTopLevel l.lyt then throw "layout stack still has geometrycollection frames"
  pure (l, true)

def isValidPoint (l : Lx) (cl : List Ord) : P (Lx × Bool) :=
  match cl.length with
  | 1 => pure (setParseError l "not enough coordinates" "each point needs at least 2 coords", false)
  | 2 | 3 | 4 => validateStride l cl.length
  | _ => pure (setParseError l "too many coordinates" "each point can have at most 4 coords", false)

def isValidLineString (l : Lx) (cl : List Ord) : P (Lx × Bool) := do
  let s := Layout.stride (← curLayout l)
  if cl.length < 2 * s then
    pure (setParseError l "non-empty linestring with only one point" "minimum number of points is 2", false)
  else pure (l, true)

def ringClosedLoop (feq : Ord → Ord → Bool) (cl : List Ord) (stride : Nat) : List Nat → P Bool
  | [] => pure true
  | i :: rest =>
      match cl[i]?, (if cl.length + i < stride then none else cl[cl.length - stride + i]?) with
      | some a, some b => if feq a b then ringClosedLoop feq cl stride rest else pure false
      | _, _ => throw "index out of range"

def isValidPolygonRing (feq : Ord → Ord → Bool) (l : Lx) (cl : List Ord) : P (Lx × Bool) := do
  let lay ← curLayout l
  let s := Layout.stride lay
  if cl.length < 4 * s then
    pure (setParseError l "polygon ring doesn't have enough points" "minimum number of points is 4", false)
  else
    let dims := if (Layout.zIndex lay).isSome then 3 else 2
    if ← ringClosedLoop feq cl s (List.range dims) then pure (l, true)
    else pure (setParseError l "polygon ring not closed" "ensure first and last point are the same", false)

/-- One call into the layout logic. -/
def evStep (feq : Ord → Ord → Bool) (l : Lx) : Ev → P (Lx × Bool)
  | .baseAllowed => validateBaseGeometryTypeAllowed l
  | .setLayout x => validateAndSetLayoutIfNoLayout l x
  | .pushFrame x => validateAndPushLayoutStackFrame l x
  | .popFrame => validateAndPopLayoutStackFrame l
  | .nonEmptyAllowed => validateNonEmptyGeometryAllowed l
  | .baseEmptyAllowed => validateBaseTypeEmptyAllowed l
  | .point cl => isValidPoint l cl
  | .lineCheck cl => isValidLineString l cl
  | .ringCheck cl => isValidPolygonRing feq l cl
  | .atEnd => validateLayoutStackAtEnd l

/-- The same call, recorded in the ghost trace. -/
def evCall (feq : Ord → Ord → Bool) (l : Lx) (e : Ev) : P (Lx × Bool) := do
  let r ← evStep feq { l with trace := e :: l.trace } e
  pure r

/-! ## Semantic actions -/

def gcLayoutMismatch (fixed : Layout) (gs : List WGeom) : Option Err :=
  if fixed == 0 then none else
  match gs.find? (fun g => g.layoutOf != fixed) with
  | some g => some (.layoutMismatch g.layoutOf fixed)
  | none => none

/-- `D i` is `wktDollar[i]`. -/
def runAct (feq : Ord → Ord → Bool) (a : Act) (D : Nat → Sym) (l : Lx) (v : Sym) : P AR := do
  let guarded (r : Lx × Bool) (k : Lx → P AR) : P AR := if r.2 then k r.1 else pure (.stop r.1)
  let lay ← curLayout l
  let st := Layout.stride lay
  match a with
  | .start n => guarded (← evCall feq l .atEnd) fun l => pure (.go { l with ret := (D n).geom } v)
  | .collDone n m =>
      guarded (← evCall feq l .popFrame) fun l => do
        let cl ← curLayout l
        match (D n).coll with
        | none => throw "nil pointer dereference"
        | some (_, gs) =>
            -- CheckLayout: Got = requested layout, Want = the member's
            let bad := if cl == 0 then none else gs.find? (fun g => g.layoutOf != cl)
            match bad with
            | some g => pure (.stop (setError l (.geomErr (.layoutMismatch cl g.layoutOf))))
            | none =>
                match (D m).coll with
                | none => pure (.go l { v with geom := none })
                | some (_, gs') => pure (.go l { v with geom := some (.collection cl 0 gs') })
  | .newPointFlat n => pure (.go l { v with geom := some (.point ⟨lay, st, (D n).coordList, 0⟩) })
  | .newPointEmpty => pure (.go l { v with geom := some (.point ⟨lay, st, [], 0⟩) })
  | .newLineStringFlat n => pure (.go l { v with geom := some (.lineString ⟨lay, st, (D n).coordList, 0⟩) })
  | .newLineStringEmpty => pure (.go l { v with geom := some (.lineString ⟨lay, st, [], 0⟩) })
  | .newPolygonFlat n m => pure (.go l { v with geom := some (.polygon ⟨lay, st, (D n).fr.flat, (D m).fr.ends, 0⟩) })
  | .newPolygonEmpty => pure (.go l { v with geom := some (.polygon ⟨lay, st, [], [], 0⟩) })
  | .newMultiPointFlat n m =>
      pure (.go l { v with geom := some (.multiPoint ⟨lay, st, (D n).fr.flat, (D m).fr.ends, 0⟩) })
  | .newMultiPointEmpty => pure (.go l { v with geom := some (.multiPoint ⟨lay, st, [], [], 0⟩) })
  | .newMultiLineStringFlat n m =>
      pure (.go l { v with geom := some (.multiLineString ⟨lay, st, (D n).fr.flat, (D m).fr.ends, 0⟩) })
  | .newMultiLineStringEmpty => pure (.go l { v with geom := some (.multiLineString ⟨lay, st, [], [], 0⟩) })
  | .newMultiPolygonFlat n m =>
      pure (.go l { v with geom := some (.multiPolygon ⟨lay, st, (D n).mp.flat, (D m).mp.endss, 0⟩) })
  | .newMultiPolygonEmpty => pure (.go l { v with geom := some (.multiPolygon ⟨lay, st, [], [], 0⟩) })
  | .baseAllowed => guarded (← evCall feq l .baseAllowed) fun l => pure (.go l v)
  | .setLayout x => guarded (← evCall feq l (.setLayout x.toNat)) fun l => pure (.go l v)
  | .pushFrame x => guarded (← evCall feq l (.pushFrame x.toNat)) fun l => pure (.go l v)
  | .nonEmptyAllowed => guarded (← evCall feq l .nonEmptyAllowed) fun l => pure (.go l v)
  | .baseEmptyAllowed => guarded (← evCall feq l .baseEmptyAllowed) fun l => pure (.go l v)
  | .newCollection n =>
      -- a fresh collection has no fixed layout, so Push cannot fail
      pure (.go l { v with coll := some (0, (D n).geomList) })
  | .emptyCollection => pure (.go l { v with coll := some (0, []) })
  | .copyGeomList n => pure (.go l { v with geomList := (D n).geomList })
  | .appendGeomList n m =>
      match (D m).geom with
      | some g => pure (.go l { v with geomList := (D n).geomList ++ [g] })
      | none => throw "nil geometry in geometry list"
  | .singleGeomList n =>
      match (D n).geom with
      | some g => pure (.go l { v with geomList := [g] })
      | none => throw "nil geometry in geometry list"
  | .copyMP n => pure (.go l { v with mp := (D n).mp })
  | .appendMP n m => pure (.go l { v with mp := appendMP (D n).mp (D m).mp })
  | .makeMP n => pure (.go l { v with mp := makeMP (D n).fr })
  | .makeFR n => pure (.go l { v with fr := makeFR (D n).coordList })
  | .copyFR n => pure (.go l { v with fr := (D n).fr })
  | .appendFR n m => pure (.go l { v with fr := appendFR (D n).fr (D m).fr })
  | .ring n m =>
      guarded (← evCall feq l (.ringCheck (D n).coordList)) fun l => pure (.go l { v with fr := makeFR (D m).coordList })
  | .lineCheck n => guarded (← evCall feq l (.lineCheck (D n).coordList)) fun l => pure (.go l v)
  | .pointCheck n => guarded (← evCall feq l (.point (D n).coordList)) fun l => pure (.go l v)
  | .copyCL n => pure (.go l { v with coordList := (D n).coordList })
  | .appendCL n m => pure (.go l { v with coordList := (D n).coordList ++ (D m).coordList })
  | .appendCoord n m => pure (.go l { v with coordList := (D n).coordList ++ [(D m).coord] })
  | .singleCoord n => pure (.go l { v with coordList := [(D n).coord] })
  | .nilCL => pure (.go l { v with coordList := [] })
  | .unknown body => throw ("untranslated semantic action: " ++ body)

/-! ## The goyacc driver loop -/

def tbl (name : String) (a : Array Int) (i : Int) : P Int :=
  if i < 0 then throw s!"index out of range [{i}] ({name})"
  else match a[i.toNat]? with
    | some v => pure v
    | none => throw s!"index out of range [{i}] with length {a.size} ({name})"

open Generated in
/-- wktlex1's translation of the lexer's return value into the internal token number. -/
def tokenOf (char : Int) : P Int := do
  let mut token : Int := 0
  if char ≤ 0 then token ← tbl "wktTok1" wktTok1 0
  else if char < wktTok1.size then token ← tbl "wktTok1" wktTok1 char
  else if char ≥ wktPrivate && char < wktPrivate + wktTok2.size then
    token ← tbl "wktTok2" wktTok2 (char - wktPrivate)
  else
    let mut i := 0
    let mut found := false
    while i < wktTok3.size && !found do
      token ← tbl "wktTok3" wktTok3 i
      if token == char then
        token ← tbl "wktTok3" wktTok3 (i + 1)
        found := true
      i := i + 2
  if token == 0 then token ← tbl "wktTok2" wktTok2 1
  pure token

open Generated in
def tokname (c : Int) : String :=
  if c ≥ 1 && c - 1 < wktToknames.size then
    let s := wktToknames.getD (c - 1).toNat ""
    if s != "" then s else s!"tok-{c}"
  else s!"tok-{c}"

open Generated in
/-- wktErrorMessage with wktErrorVerbose as extracted. -/
def errorMessage (state lookAhead : Int) : P String := do
  if !wktErrorVerbose then return "syntax error"
  let mut res := "syntax error: unexpected " ++ tokname lookAhead
  let mut expected : Array Int := #[]
  let base ← tbl "wktPact" wktPact state
  let mut tok : Int := 4
  while tok - 1 < wktToknames.size do
    let n := base + tok
    if n ≥ 0 && n < wktLast then
      let a ← tbl "wktAct" wktAct n
      if (← tbl "wktChk" wktChk a) == tok then
        if expected.size == 4 then return res
        expected := expected.push tok
    tok := tok + 1
  if (← tbl "wktDef" wktDef state) == -2 then
    let mut i : Int := 0
    let mut fuel := wktExca.size + 2
    while fuel > 0 && ((← tbl "wktExca" wktExca i) != -1 || (← tbl "wktExca" wktExca (i + 1)) != state) do
      i := i + 2
      fuel := fuel - 1
    i := i + 2
    fuel := wktExca.size + 2
    while fuel > 0 && (← tbl "wktExca" wktExca i) ≥ 0 do
      let t ← tbl "wktExca" wktExca i
      if !(t < 4 || (← tbl "wktExca" wktExca (i + 1)) == 0) then
        if expected.size == 4 then return res
        expected := expected.push t
      i := i + 2
      fuel := fuel - 1
    if (← tbl "wktExca" wktExca (i + 1)) != 0 then return res
  let mut first := true
  for t in expected do
    res := res ++ (if first then ", expecting " else " or ") ++ tokname t
    first := false
  pure res

structure PS where
  lx : Lx := {}
  stack : Array Sym := #[]
  p : Int := -1
  state : Int := 0
  char : Int := -1
  token : Int := -1
  lval : Sym := {}
  val : Sym := {}
  errflag : Nat := 0
  deriving Inhabited

inductive Lbl where
  | stack | newstate | dflt
  deriving Repr, BEq

/-- One pass from a label to the next label or to `return n`. -/
inductive Step where
  | goto (lbl : Lbl) (s : PS)
  | ret (code : Nat) (s : PS)

def setStack (a : Array Sym) (i : Nat) (v : Sym) : Array Sym :=
  if i < a.size then a.set! i v else (a ++ Array.replicate (i - a.size) default).push v

def getStack (a : Array Sym) (i : Int) : P Sym :=
  if i < 0 then throw s!"index out of range [{i}] (wktS)" else pure (a.getD i.toNat default)

def callLex (parseNum : List Char → Option Ord) (w : Input) (s : PS) : P PS := do
  let (lx, char, v) := lex parseNum w s.lx
  let lval := match v with | some x => { s.lval with coord := x } | none => s.lval
  let token ← tokenOf char
  pure { s with lx := lx, char := char, token := token, lval := lval }

open Generated in
def step (parseNum : List Char → Option Ord) (feq : Ord → Ord → Bool) (w : Input)
    (lbl : Lbl) (s : PS) : P Step := do
  match lbl with
  | .stack =>
      let p := s.p + 1
      let stack := setStack s.stack p.toNat { s.val with yys := s.state }
      pure (.goto .newstate { s with p := p, stack := stack })
  | .newstate =>
      let n ← tbl "wktPact" wktPact s.state
      if n ≤ wktFlag then return .goto .dflt s
      let s ← if s.char < 0 then callLex parseNum w s else pure s
      let n := n + s.token
      if n < 0 || n ≥ wktLast then return .goto .dflt s
      let n ← tbl "wktAct" wktAct n
      if (← tbl "wktChk" wktChk n) == s.token then
        pure (.goto .stack { s with char := -1, token := -1, val := s.lval, state := n,
                                    errflag := if s.errflag > 0 then s.errflag - 1 else 0 })
      else pure (.goto .dflt s)
  | .dflt =>
      let mut s := s
      let mut n ← tbl "wktDef" wktDef s.state
      if n == -2 then
        if s.char < 0 then s ← callLex parseNum w s
        let mut xi : Int := 0
        let mut fuel := wktExca.size + 2
        while fuel > 0 && !((← tbl "wktExca" wktExca xi) == -1 && (← tbl "wktExca" wktExca (xi + 1)) == s.state) do
          xi := xi + 2
          fuel := fuel - 1
        xi := xi + 2
        fuel := wktExca.size + 2
        while fuel > 0 && !((← tbl "wktExca" wktExca xi) < 0 || (← tbl "wktExca" wktExca xi) == s.token) do
          xi := xi + 2
          fuel := fuel - 1
        n ← tbl "wktExca" wktExca (xi + 1)
        if n < 0 then return .ret 0 s
      if n == 0 then
        -- error ... attempt to resume parsing
        if s.errflag == 0 then
          let msg ← errorMessage s.state s.token
          s := { s with lx := lexErrorCall s.lx msg }
        if s.errflag == 3 then
          if s.token == wktEofCode then return .ret 1 s
          return .goto .newstate { s with char := -1, token := -1 }
        -- Errflag 0, 1, 2
        s := { s with errflag := 3 }
        let mut p := s.p
        let mut fuel := s.stack.size + 2
        while fuel > 0 && p ≥ 0 do
          let e ← getStack s.stack p
          let m := (← tbl "wktPact" wktPact e.yys) + wktErrCode
          if m ≥ 0 && m < wktLast then
            let st ← tbl "wktAct" wktAct m
            if (← tbl "wktChk" wktChk st) == wktErrCode then
              return .goto .stack { s with p := p, state := st }
          p := p - 1
          fuel := fuel - 1
        return .ret 1 { s with p := p }
      -- reduction by production n
      let nt := n
      let pt := s.p
      let p := s.p - (← tbl "wktR2" wktR2 n)
      let val ← getStack s.stack (p + 1)
      let lhs ← tbl "wktR1" wktR1 n
      let g ← tbl "wktPgo" wktPgo lhs
      let below ← getStack s.stack p
      let j := g + below.yys + 1
      let state ←
        if j ≥ wktLast then tbl "wktAct" wktAct g
        else do
          let st ← tbl "wktAct" wktAct j
          if (← tbl "wktChk" wktChk st) != -lhs then tbl "wktAct" wktAct g else pure st
      s := { s with p := p, val := val, state := state }
      match wktActions.find? (·.1 == nt.toNat) with
      | none => pure (.goto .stack s)
      | some (_, k, act) =>
          let stackNow := s.stack
          let D : Nat → Sym := fun i => stackNow.getD (pt - k + i).toNat default
          if pt - k < 0 then throw "slice bounds out of range (wktDollar)"
          match ← runAct feq act D s.lx s.val with
          | .go lx v => pure (.goto .stack { s with lx := lx, val := v })
          | .stop lx => pure (.ret 1 { s with lx := lx })

def run (parseNum : List Char → Option Ord) (feq : Ord → Ord → Bool) (w : Input) :
    Nat → Lbl → PS → P (Option (Nat × PS))
  | 0, _, _ => pure none
  | fuel + 1, lbl, s => do
      match ← step parseNum feq w lbl s with
      | .goto lbl' s' => run parseNum feq w fuel lbl' s'
      | .ret c s' => pure (some (c, s'))

/-- wkt.Unmarshal.  Fuel: every loop turn is a shift, a reduction or a label hop; the generous
bound below is never reached on the tables as generated (running out is reported as a panic
named "fuel", i.e. a correspondence failure, never silently). -/
def unmarshalT (parseNum : List Char → Option Ord) (feq : Ord → Ord → Bool) (w : Input) :
    Outcome (Option WGeom) × Option PErr × List Ev :=
  match run parseNum feq w (64 * w.size + 4096) .stack {} with
  | .error msg => (.panic msg, none, [])
  | .ok none => (.panic "fuel", none, [])
  | .ok (some (_, s)) =>
      match s.lx.lastErr with
      | some e => (.err .syntax, some e, s.lx.trace.reverse)
      | none => (.ok s.lx.ret, none, s.lx.trace.reverse)

def unmarshal (parseNum : List Char → Option Ord) (feq : Ord → Ord → Bool) (w : Input) :
    Outcome (Option WGeom) × Option PErr :=
  let r := unmarshalT parseNum feq w
  (r.1, r.2.1)

/-! ## The call protocol of the layout logic

A small automaton over the ghost trace: frames are popped only after being pushed and only
once their dimension is known, a base-type check at the top level can only be the very first
call, a ring is checked only when the dimension is known (one of its points was validated), the
end-of-parse check comes with no frame open.  `known` is a conservative "the current frame's
layout is not NoLayout".  Properties/C06 proves that no call sequence following this protocol
reaches an assertion; the driver checks on every explored input that the regenerated tables only
produce such sequences. -/

structure Proto where
  depth : Nat := 0
  started : Bool := false
  known : Bool := false
  deriving Repr, BEq, DecidableEq, Inhabited

def Proto.step (p : Proto) : Ev → Option Proto
  | .baseAllowed => if p.depth == 0 && p.started then none else some { p with started := true }
  | .setLayout l =>
      if l == 2 || l == 3 || l == 4 then some { p with started := true, known := true } else none
  | .pushFrame l =>
      if l == 0 then some { depth := p.depth + 1, started := true, known := p.known }
      else if l == 2 || l == 3 || l == 4 then some { depth := p.depth + 1, started := true, known := true }
      else none
  | .popFrame =>
      if p.depth == 0 || !p.known then none else some { depth := p.depth - 1, started := true, known := true }
  | .nonEmptyAllowed | .lineCheck _ => some { p with started := true }
  | .baseEmptyAllowed | .point _ => some { p with started := true, known := true }
  | .ringCheck _ => if p.known then some { p with started := true } else none
  | .atEnd => if p.depth == 0 then some { p with started := true } else none

def protocolOK : Proto → List Ev → Bool
  | _, [] => true
  | p, e :: es =>
      match p.step e with
      | none => false
      | some p' => protocolOK p' es

/-! ## (*SyntaxError).Error -/

def indexByte (bs : List UInt8) (b : UInt8) : Option Nat :=
  let i := bs.findIdx (· == b)
  if i < bs.length then some i else none

/-- End of the line that starts at `lineStart`: position of the first '\n' at or after it, or
the end of the text. -/
def lineEndOf (w : Input) (lineStart : Nat) : Nat :=
  match indexByte (w.toList.drop lineStart) 10 with
  | none => w.size
  | some i => i + lineStart

structure Plan where
  snipStart : Int
  snipEnd : Nat
  snipPos : Int
  pre : String
  suf : String

/-- The snippet arithmetic of Error() (Go `int`s: kept as Int where they can go negative). -/
def plan (w : Input) (e : SynErr) : Plan :=
  let lineEnd := lineEndOf w e.lineStart
  let pre := s!"LINE {e.lineNum}: "
  let leftMin : Int := (e.lineStart : Int) + e.linePos - 30
  let trimL := (e.lineStart : Int) < leftMin
  let rightMax := e.lineStart + e.linePos + 30
  let trimR := lineEnd > rightMax
  { snipStart := if trimL then leftMin else e.lineStart
    snipEnd := if trimR then rightMax else lineEnd
    snipPos := if trimL then (e.linePos : Int) - (leftMin - e.lineStart) else e.linePos
    pre := if trimL then pre ++ "..." else pre
    suf := if trimR then "...\n" else "\n" }

def render (w : Input) (e : SynErr) : P (List UInt8) :=
  if e.lineStart > w.size then throw "slice bounds out of range (wkt[lineStart:])" else
  let pl := plan w e
  if pl.snipStart < 0 || pl.snipStart > pl.snipEnd || pl.snipEnd > w.size then
    throw "slice bounds out of range (snippet)"
  else if (pl.pre.length : Int) + pl.snipPos < 0 then throw "strings: negative Repeat count"
  else
    let head := s!"syntax error: {e.problem} at line {e.lineNum}, pos {e.linePos}\n"
    let snippet := ((w.toList.drop pl.snipStart.toNat).take (pl.snipEnd - pl.snipStart.toNat)).map
      fun b => if b == 9 then 32 else b
    let out := head.toUTF8.toList ++ pl.pre.toUTF8.toList ++ snippet ++ pl.suf.toUTF8.toList
      ++ List.replicate ((pl.pre.length : Int) + pl.snipPos).toNat 32 ++ [94]
    pure (if e.hint != "" then out ++ ("\nHINT: " ++ e.hint).toUTF8.toList else out)

end GeomVerif.WktParse
