/-
C17: an abstract interleaving semantics.  A call is a deterministic thread (a resumption that
reads and writes memory locations and finally returns a result); a concurrent execution is
any schedule (list of thread indexes) over a list of threads sharing one memory.  There are no
synchronisation operations, so two accesses of different threads to the same location, one of
them a write, are a data race whenever they occur in an execution.

What the code analysis of /verif/effects establishes for every non-mutating exported function
(see Tie/Effects.lean) is the discipline `Disc`: a call reads only locations that are shared
(its arguments, package-level variables) or its own (memory it allocated), and writes only its
own.  The theorems in Properties/C17.lean are about every program with that discipline.
-/
namespace GeomVerif.Sched

/-- A deterministic thread over locations `L`, values `V`, result `R`. -/
inductive Thread (L V R : Type) where
  | done (r : R)
  | read (l : L) (k : V → Thread L V R)
  | write (l : L) (v : V) (k : Thread L V R)

abbrev Mem (L V : Type) := L → V

variable {L V R : Type} [DecidableEq L]

def upd (m : Mem L V) (l : L) (v : V) : Mem L V := fun x => if x = l then v else m x

/-- What a step does to memory (for the race definition). -/
inductive Access (L : Type) where
  | none
  | rd (l : L)
  | wr (l : L)
  deriving DecidableEq, Repr

def Thread.next : Thread L V R → Access L
  | .done _ => .none
  | .read l _ => .rd l
  | .write l _ _ => .wr l

/-- One step of a thread on a memory (a finished thread stays finished). -/
def Thread.step : Thread L V R → Mem L V → Thread L V R × Mem L V
  | .done r, m => (.done r, m)
  | .read l k, m => (k (m l), m)
  | .write l v k, m => (k, upd m l v)

def Thread.result? : Thread L V R → Option R
  | .done r => some r
  | _ => none

/-- `n` steps of a thread running alone. -/
def solo (t : Thread L V R) (m : Mem L V) : Nat → Thread L V R × Mem L V
  | 0 => (t, m)
  | n + 1 => let p := solo t m n; p.1.step p.2

structure Config (L V R : Type) where
  threads : List (Thread L V R)
  mem : Mem L V

/-- The scheduler picks thread `i` (an index out of range is a no-op). -/
def Config.stepAt (c : Config L V R) (i : Nat) : Config L V R :=
  match c.threads[i]? with
  | none => c
  | some t => let p := t.step c.mem; { threads := c.threads.set i p.1, mem := p.2 }

def runSched (c : Config L V R) (sched : List Nat) : Config L V R := sched.foldl Config.stepAt c

/-- The accesses performed along a schedule, with the thread that performed each. -/
def trace (c : Config L V R) : List Nat → List (Nat × Access L)
  | [] => []
  | i :: s =>
    match c.threads[i]? with
    | none => trace (c.stepAt i) s
    | some t => (i, t.next) :: trace (c.stepAt i) s

/-- Two accesses conflict: same location, at least one write. -/
def conflict : Access L → Access L → Prop
  | .wr l, .wr l' => l = l'
  | .wr l, .rd l' => l = l'
  | .rd l, .wr l' => l = l'
  | _, _ => False

/-- The discipline: reads only where `canRead`, writes only where `canWrite`, on every path. -/
inductive Disc (canRead canWrite : L → Prop) : Thread L V R → Prop where
  | done (r : R) : Disc canRead canWrite (.done r)
  | read (l : L) (k : V → Thread L V R) : canRead l → (∀ v, Disc canRead canWrite (k v)) →
      Disc canRead canWrite (.read l k)
  | write (l : L) (v : V) (k : Thread L V R) : canWrite l → Disc canRead canWrite k →
      Disc canRead canWrite (.write l v k)

end GeomVerif.Sched
