/-
Model of encoding/igc: decode.go (parseDec, parseDecInRange, parseB / parseH / parseI,
parseLine, doParse's A-record state machine, bufio.Scanner line splitting, time.Date / Unix
conversion) and encode.go.  Lines are byte lists.  The H-record regular expression is evaluated
by the harness with the expression taken from the source and handed to the model as data.
Every index expression is explicit and yields `.panic` when out of range.
-/
import GeomVerif.Basic
import GeomVerif.Model.Calendar

namespace GeomVerif.Igc
open GeomVerif

abbrev Bytes := List UInt8

def byteAt (s : Bytes) (i : Nat) : Outcome UInt8 :=
  match s[i]? with
  | some b => .ok b
  | none => .panic "index out of range"

def isDigit (b : UInt8) : Bool := 48 ≤ b && b ≤ 57

/-- parseDec's digit loop over s[i:stop]. -/
def decLoop (s : Bytes) : Nat → Nat → Int → Outcome Int
  | 0, _, acc => .ok acc
  | n + 1, i, acc => do
      let c ← byteAt s i
      if isDigit c then decLoop s n (i + 1) (10 * acc + (c.toNat - 48 : Nat))
      else .err (.other "invalid character")

/-- parseDec(s, start, stop) -/
def parseDec (s : Bytes) (start stop : Nat) : Outcome Int := do
  let c ← byteAt s start
  let (neg, start) := if c = 45 then (true, start + 1) else (false, start)
  let r ← decLoop s (stop - start) start 0
  .ok (if neg then -r else r)

/-- parseDecInRange: error unless min ≤ value < max. -/
def parseDecInRange (s : Bytes) (start stop : Nat) (lo hi : Int) : Outcome Int := do
  let r ← parseDec s start stop
  if r < lo || hi ≤ r then .err (.other "value out of range") else .ok r

/-! ### Calendar (time.Date normalisation and Unix seconds) -/

/-- Days since 1970-01-01 of the proleptic Gregorian date (y, m, d) with 1 ≤ m ≤ 12 (Howard
Hinnant's algorithm); linear in `d`, so day overflow normalises like time.Date. -/
def daysFromCivilInt (y : Int) (m : Int) (d : Int) : Int :=
  let y := if m ≤ 2 then y - 1 else y
  let era := (if y ≥ 0 then y else y - 399) / 400
  let yoe := y - era * 400
  let mp := (m + 9) % 12
  let doy := (153 * mp + 2) / 5 + d - 1
  let doe := yoe * 365 + yoe / 4 - yoe / 100 + doy
  era * 146097 + doe - 719468

/-- The same quantity; for ordinary dates (years 1..9999, valid month and day) evaluated with the
natural-number formulas of Model/Calendar.lean, about which the window theorem is proved. -/
def daysFromCivil (y m d : Int) : Int :=
  if 1 ≤ y ∧ y ≤ 9999 ∧ 1 ≤ m ∧ m ≤ 12 ∧ 1 ≤ d ∧ d ≤ 31 then
    (Calendar.daysSinceEra y.toNat m.toNat d.toNat : Int) - 719468
  else daysFromCivilInt y m d

/-- time.Date(year, month, day, h, mi, s, 0, UTC).Unix() with month normalisation. -/
def unixSeconds (year month day hour minute second : Int) : Int :=
  let m0 := month - 1
  let y := year + m0.fdiv 12
  let m := m0.fmod 12 + 1
  daysFromCivil y m day * 86400 + hour * 3600 + minute * 60 + second

/-- Inverse: civil date of a day number. -/
def civilFromDaysInt (z : Int) : Int × Int × Int :=
  let z := z + 719468
  let era := (if z ≥ 0 then z else z - 146096) / 146097
  let doe := z - era * 146097
  let yoe := (doe - doe / 1460 + doe / 36524 - doe / 146096) / 365
  let y := yoe + era * 400
  let doy := doe - (365 * yoe + yoe / 4 - yoe / 100)
  let mp := (5 * doy + 2) / 153
  let d := doy - (153 * mp + 2) / 5 + 1
  let m := if mp < 10 then mp + 3 else mp - 9
  (if m ≤ 2 then y + 1 else y, m, d)

/-- Civil date of a day number; non-negative day numbers use the natural-number formulas. -/
def civilFromDays (z : Int) : Int × Int × Int :=
  if 0 ≤ z then
    let c := Calendar.civilN z.toNat
    ((c.1 : Int), (c.2.1 : Int), (c.2.2 : Int))
  else civilFromDaysInt z

def wrapInt64 (x : Int) : Int := (x + 9223372036854775808).emod 18446744073709551616 - 9223372036854775808

/-! ### Parser state -/

structure PState where
  coords : List Float := []            -- 5 per fix: lng, lat, ellipsoidAlt, unix seconds, pressureAlt
  headers : Nat := 0
  year : Int := 0
  month : Int := 0
  day : Int := 0
  lastUnixNano : Option Int := none    -- lastDate (none = zero time.Time)
  ladStart : Nat := 0
  ladStop : Nat := 0
  lodStart : Nat := 0
  lodStop : Nat := 0
  tdsStart : Nat := 0
  tdsStop : Nat := 0
  bRecordLen : Nat := 35

/-- Exact nanoseconds since the epoch of the normalised date. -/
def dateNanos (p : PState) (h mi s nsec : Int) (day : Int) : Int :=
  unixSeconds p.year p.month day h mi s * 1000000000 + nsec

/-- time.Time zero value is year 1; `date.Before(lastDate)` with lastDate zero is false unless the
date is before year 1. We compare exact nanosecond counts; the zero time is −62135596800 s. -/
def zeroTimeNanos : Int := -62135596800 * 1000000000

/-- Result of handling one record: the (possibly partially updated) state and whether the record
was reported as an error. -/
structure R where
  st : PState
  err : Bool := false

/-- Continue with `k` on success; a returned error ends the record keeping the state reached. -/
def tryE {β : Type} (x : Outcome β) (p : PState) (k : β → Outcome R) : Outcome R :=
  match x with
  | .ok b => k b
  | .err _ => .ok ⟨p, true⟩
  | .panic m => .panic m

def parseB (p : PState) (line : Bytes) : Outcome R :=
  if line.length < p.bRecordLen then .ok ⟨p, true⟩ else
  tryE (parseDecInRange line 1 3 0 24) p fun hour =>
  tryE (parseDecInRange line 3 5 0 60) p fun minute =>
  tryE (parseDecInRange line 5 7 0 60) p fun second =>
  tryE (if p.tdsStart ≠ 0 then (parseDecInRange line p.tdsStart p.tdsStop 0 10).map (· * 100000000)
        else .ok 0) p fun nsec =>
  let last := p.lastUnixNano.getD zeroTimeNanos
  let d1 := dateNanos p hour minute second nsec p.day
  let (day, date) := if d1 < last then (p.day + 1, dateNanos p hour minute second nsec (p.day + 1))
                     else (p.day, d1)
  -- the day roll-over is stored before the position is parsed
  let p := { p with day := day }
  tryE (parseDecInRange line 7 9 0 91) p fun latDeg =>
  tryE (parseDecInRange line 9 14 0 60001) p fun latMilliMin =>
  let lat0 : Float := Float.ofInt (60000 * latDeg + latMilliMin) / 60000.0
  tryE (if p.ladStart ≠ 0 then (parseDec line p.ladStart p.ladStop).map (fun lad => lat0 + Float.ofInt lad / 6000000.0)
        else .ok lat0) p fun lat1 =>
  tryE (do let c ← byteAt line 14
           if c = 78 then .ok lat1 else if c = 83 then .ok (-lat1) else .err (.other "invalid character")) p fun lat =>
  tryE (parseDecInRange line 15 18 0 181) p fun lngDeg =>
  tryE (parseDecInRange line 18 23 0 60001) p fun lngMilliMin =>
  let lng0 : Float := Float.ofInt (60000 * lngDeg + lngMilliMin) / 60000.0
  tryE (if p.lodStart ≠ 0 then (parseDec line p.lodStart p.lodStop).map (fun lod => lng0 + Float.ofInt lod / 6000000.0)
        else .ok lng0) p fun lng1 =>
  tryE (do let c ← byteAt line 23
           if c = 69 then .ok lng1 else if c = 87 then .ok (-lng1) else .err (.other "invalid character")) p fun lng =>
  tryE (parseDec line 25 30) p fun pressureAlt =>
  tryE (parseDec line 30 35) p fun ellipsoidAlt =>
  let t : Float := Float.ofInt (wrapInt64 date) / 1e9
  .ok ⟨{ p with coords := p.coords ++ [lng, lat, Float.ofInt ellipsoidAlt, t, Float.ofInt pressureAlt],
                lastUnixNano := some date }, false⟩

/-- The H regular expression's groups as found by the harness (Key and Value are what the
parser uses). -/
structure HMatch where
  key : Bytes
  value : Bytes

def parseH (p : PState) (m : Option HMatch) : Outcome R :=
  match m with
  | none => .ok ⟨p, true⟩
  | some h =>
    let p := { p with headers := p.headers + 1 }
    if h.key = [68, 84, 69] then     -- "DTE"
      if h.value.length < 6 then .ok ⟨p, true⟩ else
      tryE (parseDecInRange h.value 0 2 1 32) p fun day =>
      tryE (parseDecInRange h.value 2 4 1 13) p fun month =>
      tryE (parseDec h.value 4 6) p fun year =>
      .ok ⟨{ p with day := day, month := month, year := if year < 70 then 2000 + year else 1900 + year }, false⟩
    else .ok ⟨p, false⟩

def slice3 (s : Bytes) (a : Nat) : Outcome Bytes :=
  if a + 3 ≤ s.length then .ok ((s.drop a).take 3) else .panic "slice bounds out of range"

def parseIExt (line : Bytes) : Nat → Nat → PState → Outcome R
  | 0, _, p => .ok ⟨p, false⟩
  | n + 1, i, p =>
      tryE (parseDec line (7 * i + 3) (7 * i + 5)) p fun start =>
      tryE (parseDec line (7 * i + 5) (7 * i + 7)) p fun stop =>
      if start ≠ (p.bRecordLen : Int) + 1 || stop < start then .ok ⟨p, true⟩
      else
        match slice3 line (7 * i + 7) with
        | .panic m => .panic m
        | .err _ => .ok ⟨p, true⟩
        | .ok tag =>
          let st := start.toNat
          let sp := stop.toNat
          let p := { p with bRecordLen := sp }
          let p := if tag = [76, 65, 68] then { p with ladStart := st - 1, ladStop := sp }
                   else if tag = [76, 79, 68] then { p with lodStart := st - 1, lodStop := sp }
                   else if tag = [84, 68, 83] then { p with tdsStart := st - 1, tdsStop := sp }
                   else p
          parseIExt line n (i + 1) p

def parseI (p : PState) (line : Bytes) : Outcome R :=
  if line.length < 3 then .ok ⟨p, true⟩ else
  tryE (parseDec line 1 3) p fun n =>
  if (line.length : Int) < 7 * n + 3 then .ok ⟨p, true⟩
  else parseIExt line n.toNat 0 p

def parseLine (p : PState) (line : Bytes) (hm : Option HMatch) : Outcome R :=
  match byteAt line 0 with
  | .panic m => .panic m
  | .err _ => .ok ⟨p, true⟩
  | .ok c =>
    if c = 66 then parseB p line
    else if c = 72 then parseH p hm
    else if c = 73 then parseI p line
    else .ok ⟨p, false⟩

end GeomVerif.Igc

namespace GeomVerif.Igc
open GeomVerif

/-! ### doParse: line splitting and the A-record state machine -/

/-- bufio.ScanLines followed by strings.TrimSuffix(…, "\r"): split at '\n' (no token after a final
newline), at most two trailing carriage returns removed. -/
def splitLines (data : Bytes) : List Bytes :=
  let rec go (cur : Array UInt8) (acc : Array Bytes) : List UInt8 → Array Bytes
    | [] => if cur.isEmpty then acc else acc.push cur.toList
    | 10 :: rest => go #[] (acc.push cur.toList) rest
    | b :: rest => go (cur.push b) acc rest
  let strip1 (l : Bytes) : Bytes := if l.getLast? = some 13 then l.dropLast else l
  (go #[] #[] data).toList.map fun l => strip1 (strip1 l)

structure Doc where
  st : PState := {}
  foundA : Bool := false
  leadingNoise : Bool := false
  errors : Nat := 0

def isUpper (b : UInt8) : Bool := 65 ≤ b && b ≤ 90

/-- One line of doParse. `hm` is the H-expression match for this line (used only for H records). -/
def docLine (d : Doc) (line : Bytes) (hm : Option HMatch) : Outcome Doc :=
  if line.isEmpty then .ok d
  else if d.foundA then
    match parseLine d.st line hm with
    | .ok r => .ok { d with st := r.st, errors := d.errors + (if r.err then 1 else 0) }
    | .err _ => .ok { d with errors := d.errors + 1 }
    | .panic m => .panic m
  else
    let c := line.headD 0
    if c = 65 then .ok { d with foundA := true }
    else if isUpper c then .ok { d with leadingNoise := true }
    else
      match line.findIdx? (· == 65) with
      | none => .ok d
      | some i =>
        let pre := line.take i
        match pre.findIdx? (fun b => !(b == 32 || isUpper b)) with
        | none => .ok d
        | some j =>
          let b := pre.getD j 0
          let isBom := (pre.drop j).take 3 == [0xEF, 0xBB, 0xBF]
          .ok { d with foundA := true, leadingNoise := j != 0 || (b != 0x13 && !isBom) }

def doParse (data : Bytes) (hms : Bytes → Option HMatch) : Outcome Doc :=
  (splitLines data).foldlM (fun d line => docLine d line (hms line)) {}

/-- Number of entries in the returned Errors value. -/
def Doc.numErrors (d : Doc) : Nat :=
  d.errors + (if !d.foundA then 1 else if d.leadingNoise then 1 else 0)

/-! ### Encoder -/

def truncToInt (x : Float) : Int :=
  if x < 0 then -((Float.floor (-x)).toUInt64.toNat : Int) else ((Float.floor x).toUInt64.toNat : Int)

def pad (w : Nat) (n : Int) : Bytes :=
  let s := toString n.toNat
  let body := (String.ofList (List.replicate (w - s.length) '0') ++ s).toUTF8.toList
  if n < 0 then (45 : UInt8) :: (toString (-n).toNat).toUTF8.toList else body

def clampI (x lo hi : Int) : Int := if x < lo then lo else if x > hi then hi else x

/-- Encoder.Encode with an A record `a` (non-empty) over fixes (lng, lat, alt, t, _). -/
def encode (a : Bytes) (fixes : List (Float × Float × Float × Float)) : Bytes :=
  let header : Bytes := if a.isEmpty then [] else [65] ++ a ++ [10]
  let step (st : Bytes × (Int × Int × Int)) (f : Float × Float × Float × Float) :
      Bytes × (Int × Int × Int) :=
    let (lng, lat, alt, t) := f
    let secs := truncToInt t
    let (y, m, d) := civilFromDays (secs.fdiv 86400)
    let sod := secs.fmod 86400
    let out := st.1
    let out := if (y, m, d) ≠ st.2 then
        out ++ "HFDTE".toUTF8.toList ++ pad 2 d ++ pad 2 m ++ pad 2 (y % 100) ++ [10] else out
    let latMMin0 := truncToInt (Float.abs (60000.0 * lat))
    let latMMin0 := if latMMin0 > 90 * 60000 then 90 * 60000 else latMMin0
    let lngMMin0 := truncToInt (Float.abs (60000.0 * lng))
    let lngMMin0 := if lngMMin0 > 180 * 60000 then 180 * 60000 else lngMMin0
    let altI := clampI (truncToInt alt) 0 10000
    let out := out ++ [66] ++ pad 2 (sod / 3600) ++ pad 2 (sod % 3600 / 60) ++ pad 2 (sod % 60)
      ++ pad 2 (latMMin0 / 60000) ++ pad 5 (latMMin0 % 60000) ++ [if lat < 0 then 83 else 78]
      ++ pad 3 (lngMMin0 / 60000) ++ pad 5 (lngMMin0 % 60000) ++ [if lng < 0 then 87 else 69]
      ++ [65] ++ pad 5 altI ++ pad 5 altI ++ [10]
    (out, (y, m, d))
  (fixes.foldl step (header, (1, 1, 1))).1

end GeomVerif.Igc
