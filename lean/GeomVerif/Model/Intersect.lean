/-
Model of xy/lineintersector: the robust strategy (envelope reject, four exact
orientations, endpoint copying order, computeCollinearIntersection, homogeneous-coordinate
intersection with normalisation and the central-endpoint fallback) and the non-robust
strategy's has-intersection decision.  Generic arithmetic; orientation is a parameter
(the model instantiates it with the exact sign, justified by C10).
-/
import GeomVerif.Model.Locate

namespace GeomVerif.Intersect
open GeomVerif GeomVerif.Rdp GeomVerif.Locate

variable {α : Type}

abbrev P (α : Type) := α × α

inductive IType where
  | none | point | collinear
  deriving Repr, BEq, DecidableEq

structure Result (α : Type) where
  ty : IType
  pts : List (P α)

def fmin (F : DetOps α) (a b : α) : α := if F.lt b a then b else a
def fmax (F : DetOps α) (a b : α) : α := if F.lt a b then b else a
def fle (F : DetOps α) (a b : α) : Bool := !(F.lt b a)

/-- internal.IsPointWithinLineBounds -/
def withinBounds (F : DetOps α) (p a b : P α) : Bool :=
  fle F (fmin F a.1 b.1) p.1 && fle F p.1 (fmax F a.1 b.1) &&
  fle F (fmin F a.2 b.2) p.2 && fle F p.2 (fmax F a.2 b.2)

/-- internal.DoLinesOverlap -/
def linesOverlap (F : DetOps α) (a b c d : P α) : Bool :=
  !(F.lt (fmax F c.1 d.1) (fmin F a.1 b.1) || F.lt (fmax F a.1 b.1) (fmin F c.1 d.1)) &&
  !(F.lt (fmax F c.2 d.2) (fmin F a.2 b.2) || F.lt (fmax F a.2 b.2) (fmin F c.2 d.2))

def peq (F : DetOps α) (a b : P α) : Bool := feq F a.1 b.1 && feq F a.2 b.2

/-- isPointOrCollinearIntersection -/
def pointOrCollinear (F : DetOps α) (a b : P α) (i1 i2 : Bool) : IType :=
  if peq F a b && !i1 && !i2 then .point else .collinear

/-- computeCollinearIntersection (robust) -/
def collinearIntersection (F : DetOps α) (l1s l1e l2s l2e : P α) : Result α :=
  let s2in1 := withinBounds F l2s l1s l1e
  let e2in1 := withinBounds F l2e l1s l1e
  let s1in2 := withinBounds F l1s l2s l2e
  let e1in2 := withinBounds F l1e l2s l2e
  if s1in2 && e1in2 then ⟨.collinear, [l1s, l1e]⟩
  else if s2in1 && e2in1 then ⟨.collinear, [l2s, l2e]⟩
  else if s2in1 && s1in2 then ⟨pointOrCollinear F l2s l1s e2in1 e1in2, [l2s, l1s]⟩
  else if s2in1 && e1in2 then ⟨pointOrCollinear F l2s l1e e2in1 s1in2, [l2s, l1e]⟩
  else if e2in1 && s1in2 then ⟨pointOrCollinear F l2e l1s s2in1 e1in2, [l2e, l1s]⟩
  else if e2in1 && e1in2 then ⟨pointOrCollinear F l2e l1e s2in1 s1in2, [l2e, l1e]⟩
  else ⟨.none, []⟩

/-- hcoords.GetIntersection: `none` when a quotient is NaN or infinite (`bad` decides that). -/
def hcoords (F : DetOps α) (bad : α → Bool) (a b c d : P α) : Option (P α) :=
  let l1x := F.sub a.2 b.2
  let l1y := F.sub b.1 a.1
  let l1w := F.sub (F.mul a.1 b.2) (F.mul b.1 a.2)
  let l2x := F.sub c.2 d.2
  let l2y := F.sub d.1 c.1
  let l2w := F.sub (F.mul c.1 d.2) (F.mul d.1 c.2)
  let x := F.sub (F.mul l1y l2w) (F.mul l2y l1w)
  let y := F.sub (F.mul l2x l1w) (F.mul l1x l2w)
  let w := F.sub (F.mul l1x l2y) (F.mul l2x l1y)
  let xi := F.div x w
  let yi := F.div y w
  if bad xi || bad yi then none else some (xi, yi)

/-- centralendpoint.GetIntersection: the endpoint nearest to the average of the four. -/
def centralEndpoint (F : DetOps α) (four : α) (a b c d : P α) : P α :=
  let sx := F.add (F.add (F.add (F.add F.zero a.1) b.1) c.1) d.1
  let sy := F.add (F.add (F.add (F.add F.zero a.2) b.2) c.2) d.2
  let cx := F.div sx four
  let cy := F.div sy four
  let dist (p : P α) : α :=
    let dx := F.sub cx p.1
    let dy := F.sub cy p.2
    F.sqrt (F.add (F.mul dx dx) (F.mul dy dy))
  let step (acc : P α × α) (p : P α) : P α × α :=
    if F.lt (dist p) acc.2 then (p, dist p) else acc
  ([b, c, d].foldl step (a, dist a)).1

/-- intersection(): normalise to the centre of the envelope intersection, homogeneous
coordinates, fall back to the central endpoint when that fails or leaves the envelopes. -/
def properIntersection (F : DetOps α) (bad : α → Bool) (two four : α) (l1s l1e l2s l2e : P α) :
    P α :=
  -- the inlined comparisons of normalizeToEnvCentre, in its own operand order (which of two equal
  -- values is kept matters for the sign of a zero)
  let mn (s e : α) : α := if F.lt s e then s else e
  let mx (s e : α) : α := if F.lt e s then s else e
  let hi (a b : α) : α := if F.lt b a then a else b      -- `if l1 > l2 then l1 else l2`
  let lo (a b : α) : α := if F.lt a b then a else b      -- `if l1 < l2 then l1 else l2`
  let intMinX := hi (mn l1s.1 l1e.1) (mn l2s.1 l2e.1)
  let intMaxX := lo (mx l1s.1 l1e.1) (mx l2s.1 l2e.1)
  let intMinY := hi (mn l1s.2 l1e.2) (mn l2s.2 l2e.2)
  let intMaxY := lo (mx l1s.2 l1e.2) (mx l2s.2 l2e.2)
  let nx := F.div (F.add intMinX intMaxX) two
  let ny := F.div (F.add intMinY intMaxY) two
  let sh (p : P α) : P α := (F.sub p.1 nx, F.sub p.2 ny)
  let ip := match hcoords F bad (sh l1s) (sh l1e) (sh l2s) (sh l2e) with
    | some q => q
    | none => centralEndpoint F four (sh l1s) (sh l1e) (sh l2s) (sh l2e)
  let ip : P α := (F.add ip.1 nx, F.add ip.2 ny)
  if withinBounds F ip l1s l1e && withinBounds F ip l2s l2e then ip
  else centralEndpoint F four l1s l1e l2s l2e

/-- RobustLineIntersector.computeLineOnLineIntersection; `orient o e p` is the orientation index. -/
def robust (F : DetOps α) (orient : P α → P α → P α → Int) (bad : α → Bool) (two four : α)
    (l1s l1e l2s l2e : P α) : Result α :=
  if !linesOverlap F l1s l1e l2s l2e then ⟨.none, []⟩
  else
    let o2s := orient l1s l1e l2s
    let o2e := orient l1s l1e l2e
    if (o2s > 0 && o2e > 0) || (o2s < 0 && o2e < 0) then ⟨.none, []⟩
    else
      let o1s := orient l2s l2e l1s
      let o1e := orient l2s l2e l1e
      if (o1s > 0 && o1e > 0) || (o1s < 0 && o1e < 0) then ⟨.none, []⟩
      else if o2s == 0 && o2e == 0 && o1s == 0 && o1e == 0 then
        collinearIntersection F l1s l1e l2s l2e
      else if o2s == 0 || o2e == 0 || o1s == 0 || o1e == 0 then
        let p :=
          if peq F l1s l2s || peq F l1s l2e then l1s
          else if peq F l1e l2s || peq F l1e l2e then l1e
          else if o2s == 0 then l2s
          else if o2e == 0 then l2e
          else if o1s == 0 then l1s
          else l1e
        ⟨.point, [p]⟩
      else ⟨.point, [properIntersection F bad two four l1s l1e l2s l2e]⟩

/-- lineintersector.rParameter -/
def rParameter (F : DetOps α) (abs : α → α) (p1 p2 p : P α) : α :=
  if F.lt (abs (F.sub p2.2 p1.2)) (abs (F.sub p2.1 p1.1)) then
    F.div (F.sub p.1 p1.1) (F.sub p2.1 p1.1)
  else F.div (F.sub p.2 p1.2) (F.sub p2.2 p1.2)

def sameSignNonZero (F : DetOps α) (a b : α) : Bool :=
  if F.isZero a || F.isZero b then false
  else (F.lt a F.zero && F.lt b F.zero) || (F.lt F.zero a && F.lt F.zero b)

/-- NonRobustLineIntersector.computeLineOnLineIntersection: the intersection type only. -/
def nonRobustType (F : DetOps α) (abs : α → α) (l1s l1e l2s l2e : P α) : IType :=
  let a1 := F.sub l1e.2 l1s.2
  let b1 := F.sub l1s.1 l1e.1
  let c1 := F.sub (F.mul l1e.1 l1s.2) (F.mul l1s.1 l1e.2)
  let r3 := F.add (F.add (F.mul a1 l2s.1) (F.mul b1 l2s.2)) c1
  let r4 := F.add (F.add (F.mul a1 l2e.1) (F.mul b1 l2e.2)) c1
  if !(F.isZero r3) && !(F.isZero r4) && sameSignNonZero F r3 r4 then .none
  else
    let a2 := F.sub l2e.2 l2s.2
    let b2 := F.sub l2s.1 l2e.1
    let c2 := F.sub (F.mul l2e.1 l2s.2) (F.mul l2s.1 l2e.2)
    let r1 := F.add (F.add (F.mul a2 l1s.1) (F.mul b2 l1s.2)) c2
    let r2 := F.add (F.add (F.mul a2 l1e.1) (F.mul b2 l1e.2)) c2
    if !(F.isZero r1) && !(F.isZero r2) && sameSignNonZero F r1 r2 then .none
    else
      let denom := F.sub (F.mul a1 b2) (F.mul a2 b1)
      if F.isZero denom then
        -- computeCollinearIntersection: the address comparisons are never true
        let r3 := rParameter F abs l1s l1e l2s
        let r4 := rParameter F abs l1s l1e l2e
        let (t3, t4) := if F.lt r3 r4 then (r3, r4) else (r4, r3)
        if F.lt F.one t3 || F.lt t4 F.zero then .none else .collinear
      else .point

end GeomVerif.Intersect
