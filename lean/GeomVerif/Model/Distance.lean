/-
Model of the distance functions of xy/cga.go and xyz/xyz.go (after the D8/D9 repairs).
Generic arithmetic (Float mirror in the driver).
-/
import GeomVerif.Model.Intersect

namespace GeomVerif.Dist
open GeomVerif GeomVerif.Rdp GeomVerif.Locate GeomVerif.Intersect

variable {α : Type}

structure DOps (α : Type) extends DetOps α where
  abs : α → α

abbrev P3 (α : Type) := α × α × α

def fle' (F : DOps α) (a b : α) : Bool := !(F.lt b a)

/-- internal.Distance2D -/
def dist2D (F : DOps α) (a b : P α) : α :=
  let dx := F.sub a.1 b.1
  let dy := F.sub a.2 b.2
  F.sqrt (F.add (F.mul dx dx) (F.mul dy dy))

/-- xy.DistanceFromPointToLine -/
def pointToSeg (F : DOps α) (p a b : P α) : α :=
  if feq F.toDetOps a.1 b.1 && feq F.toDetOps a.2 b.2 then dist2D F p a
  else
    let len2 := F.add (F.mul (F.sub b.1 a.1) (F.sub b.1 a.1)) (F.mul (F.sub b.2 a.2) (F.sub b.2 a.2))
    let r := F.div (F.add (F.mul (F.sub p.1 a.1) (F.sub b.1 a.1)) (F.mul (F.sub p.2 a.2) (F.sub b.2 a.2))) len2
    if fle' F r F.zero then dist2D F p a
    else if fle' F F.one r then dist2D F p b
    else
      let s := F.div (F.sub (F.mul (F.sub a.2 p.2) (F.sub b.1 a.1)) (F.mul (F.sub a.1 p.1) (F.sub b.2 a.2))) len2
      F.mul (F.abs s) (F.sqrt len2)

/-- xy.PerpendicularDistanceFromPointToLine -/
def perpDist (F : DOps α) (p a b : P α) : α :=
  let len2 := F.add (F.mul (F.sub b.1 a.1) (F.sub b.1 a.1)) (F.mul (F.sub b.2 a.2) (F.sub b.2 a.2))
  let s := F.div (F.sub (F.mul (F.sub a.2 p.2) (F.sub b.1 a.1)) (F.mul (F.sub a.1 p.1) (F.sub b.2 a.2))) len2
  F.mul (F.abs s) (F.sqrt len2)

/-- xy.DistanceFromPointToLineString over the vertex list (at least one vertex). -/
def pointToLineString (F : DOps α) (p : P α) : List (P α) → α
  | [] => F.zero
  | v :: rest =>
      let rec go (m : α) : List (P α) → α
        | a :: b :: tl =>
            let d := pointToSeg F p a b
            go (if F.lt d m then d else m) (b :: tl)
        | _ => m
      go (dist2D F p v) (v :: rest)

def fmin2 (F : DOps α) (a b : α) : α := if F.lt b a then b else a

/-- xy.DistanceFromLineToLine -/
def segToSeg (F : DOps α) (a b c d : P α) : α :=
  if feq F.toDetOps a.1 b.1 && feq F.toDetOps a.2 b.2 then pointToSeg F a c d
  else if feq F.toDetOps c.1 d.1 && feq F.toDetOps c.2 d.2 then pointToSeg F d a b
  else
    let noInt : Bool :=
      if !linesOverlap F.toDetOps a b c d then true
      else
        let denom := F.sub (F.mul (F.sub b.1 a.1) (F.sub d.2 c.2)) (F.mul (F.sub b.2 a.2) (F.sub d.1 c.1))
        if F.isZero denom then true
        else
          let rNum := F.sub (F.mul (F.sub a.2 c.2) (F.sub d.1 c.1)) (F.mul (F.sub a.1 c.1) (F.sub d.2 c.2))
          let sNum := F.sub (F.mul (F.sub a.2 c.2) (F.sub b.1 a.1)) (F.mul (F.sub a.1 c.1) (F.sub b.2 a.2))
          let s := F.div sNum denom
          let r := F.div rNum denom
          F.lt r F.zero || F.lt F.one r || F.lt s F.zero || F.lt F.one s
    if noInt then
      fmin2 F (fmin2 F (fmin2 F (pointToSeg F a c d) (pointToSeg F b c d)) (pointToSeg F c a b))
        (pointToSeg F d a b)
    else F.zero

/-! ### 3D (xyz) -/

def dist3D (F : DOps α) (a b : P3 α) : α :=
  let dx := F.sub a.1 b.1
  let dy := F.sub a.2.1 b.2.1
  let dz := F.sub a.2.2 b.2.2
  F.sqrt (F.add (F.add (F.mul dx dx) (F.mul dy dy)) (F.mul dz dz))

def eq3 (F : DOps α) (a b : P3 α) : Bool :=
  feq F.toDetOps a.1 b.1 && feq F.toDetOps a.2.1 b.2.1 && feq F.toDetOps a.2.2 b.2.2

/-- xyz.DistancePointToLine -/
def pointToSeg3 (F : DOps α) (p a b : P3 α) : α :=
  if eq3 F a b then dist3D F p a
  else
    let ux := F.sub b.1 a.1; let uy := F.sub b.2.1 a.2.1; let uz := F.sub b.2.2 a.2.2
    let len2 := F.add (F.add (F.mul ux ux) (F.mul uy uy)) (F.mul uz uz)
    let r := F.div (F.add (F.add (F.mul (F.sub p.1 a.1) ux) (F.mul (F.sub p.2.1 a.2.1) uy))
      (F.mul (F.sub p.2.2 a.2.2) uz)) len2
    if fle' F r F.zero then dist3D F p a
    else if fle' F F.one r then dist3D F p b
    else
      let qx := F.add a.1 (F.mul r ux)
      let qy := F.add a.2.1 (F.mul r uy)
      let qz := F.add a.2.2 (F.mul r uz)
      let dx := F.sub p.1 qx; let dy := F.sub p.2.1 qy; let dz := F.sub p.2.2 qz
      F.sqrt (F.add (F.add (F.mul dx dx) (F.mul dy dy)) (F.mul dz dz))

/-- xyz.VectorDot(v1Start, v1End, v2Start, v2End) -/
def vdot (F : DOps α) (a b c d : P3 α) : α :=
  F.add (F.add (F.mul (F.sub b.1 a.1) (F.sub d.1 c.1)) (F.mul (F.sub b.2.1 a.2.1) (F.sub d.2.1 c.2.1)))
    (F.mul (F.sub b.2.2 a.2.2) (F.sub d.2.2 c.2.2))

/-- xyz.DistanceLineToLine (segments A–B and C–D) -/
def segToSeg3 (F : DOps α) (A B C D : P3 α) : α :=
  if eq3 F A B then pointToSeg3 F A C D
  else if eq3 F C D then pointToSeg3 F C A B
  else
    let b := vdot F A B C D
    let c := vdot F C D C D
    let d := vdot F A B C A
    let e := vdot F C D C A
    -- closest-approach parameters from cross products (the D15 repair): n = u x v, r = C - A
    let ux := F.sub B.1 A.1; let uy := F.sub B.2.1 A.2.1; let uz := F.sub B.2.2 A.2.2
    let vx := F.sub D.1 C.1; let vy := F.sub D.2.1 C.2.1; let vz := F.sub D.2.2 C.2.2
    let rx := F.sub C.1 A.1; let ry := F.sub C.2.1 A.2.1; let rz := F.sub C.2.2 A.2.2
    let nx := F.sub (F.mul uy vz) (F.mul uz vy)
    let ny := F.sub (F.mul uz vx) (F.mul ux vz)
    let nz := F.sub (F.mul ux vy) (F.mul uy vx)
    let denom := F.add (F.add (F.mul nx nx) (F.mul ny ny)) (F.mul nz nz)
    let tri (px py pz qx qy qz : α) : α :=   -- ((p x q) . n)
      F.add (F.add (F.mul (F.sub (F.mul py qz) (F.mul pz qy)) nx) (F.mul (F.sub (F.mul pz qx) (F.mul px qz)) ny))
        (F.mul (F.sub (F.mul px qy) (F.mul py qx)) nz)
    let (s, t) : α × α :=
      if fle' F denom F.zero then (F.zero, if F.lt c b then F.div d b else F.div e c)
      else (F.div (tri rx ry rz vx vy vz) denom, F.div (tri rx ry rz ux uy uz) denom)
    if F.lt s F.zero || F.lt F.one s || F.lt t F.zero || F.lt F.one t then
      fmin2 F (fmin2 F (pointToSeg3 F A C D) (pointToSeg3 F B C D))
        (fmin2 F (pointToSeg3 F C A B) (pointToSeg3 F D A B))
    else
      let x1 := F.add A.1 (F.mul s (F.sub B.1 A.1))
      let y1 := F.add A.2.1 (F.mul s (F.sub B.2.1 A.2.1))
      let z1 := F.add A.2.2 (F.mul s (F.sub B.2.2 A.2.2))
      let x2 := F.add C.1 (F.mul t (F.sub D.1 C.1))
      let y2 := F.add C.2.1 (F.mul t (F.sub D.2.1 C.2.1))
      let z2 := F.add C.2.2 (F.mul t (F.sub D.2.2 C.2.2))
      dist3D F (x1, y1, z1) (x2, y2, z2)

end GeomVerif.Dist
