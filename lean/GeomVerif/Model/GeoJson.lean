/-
Model of encoding/geojson/geojson.go's decoders over a JSON value: Geometry.Decode with the
layout guessed from the first position, Unmarshal, Feature.UnmarshalJSON and
FeatureCollection.UnmarshalJSON, including the parts of encoding/json's typed decoding that
decide the library's behaviour (null into slices / pointers / strings, ragged and null
coordinates, case-insensitive and duplicate keys, numbers that do not fit a float64, the three
encodings of a Feature id).  encoding/json's scanner (bytes -> JSON value) is not modelled: the
harness hands over the value Go's own tokenizer produced (or `invalid`).

Errors are classified as in the wire protocol: `json` for every error of encoding/json,
`dimTooLow n`, `unsupportedType`, `strideMismatch got want`.
-/
import GeomVerif.Model.Wkb

namespace GeomVerif.GeoJson
open GeomVerif GeomVerif.Wkb

inductive J where
  | null
  | bool (b : Bool)
  | num (lit : String)
  | str (s : String)
  | arr (xs : List J)
  | obj (kvs : List (String × J))
  deriving Repr, BEq, Inhabited

abbrev Parse := List Char → Option Ord     -- strconv.ParseFloat(lit, 64); none = error

/-! ## Field-name matching of encoding/json (exact, else under simple case folding) -/

def foldChar (c : Char) : Char :=
  if c.toNat == 0x17F then 's' else if c.toNat == 0x212A then 'k' else c.toLower

def foldEq (a b : String) : Bool := a.toList.map foldChar == b.toList.map foldChar

/-- The field a key selects among `names` (exact match preferred). -/
def fieldOf (names : List String) (key : String) : Option String :=
  match names.find? (· == key) with
  | some n => some n
  | none => names.find? (foldEq key)

/-! ## Typed decoding of the coordinate arrays -/

/-- `[]float64` (also geom.Coord) from a fresh nil slice: `none` = nil. A `null` element leaves
the zero value. -/
def decFloats (parse : Parse) : J → Outcome (Option (List Ord))
  | .null => .ok none
  | .arr xs => do
      let vs ← xs.mapM fun x => match x with
        | .num s => (match parse s.toList with
            | some v => Outcome.ok v
            | none => .err .json)
        | .null => .ok 0
        | _ => .err .json
      .ok (some vs)
  | _ => .err .json

/-- `[]geom.Coord`; a nil Coord is `none`. -/
def decCoords1 (parse : Parse) : J → Outcome (List (Option (List Ord)))
  | .null => .ok []
  | .arr xs => xs.mapM (decFloats parse)
  | _ => .err .json

def decCoords2 (parse : Parse) : J → Outcome (List (List (Option (List Ord))))
  | .null => .ok []
  | .arr xs => xs.mapM (decCoords1 parse)
  | _ => .err .json

def decCoords3 (parse : Parse) : J → Outcome (List (List (List (Option (List Ord)))))
  | .null => .ok []
  | .arr xs => xs.mapM (decCoords2 parse)
  | _ => .err .json

/-! ## Layout guessing -/

/-- The value `geojson.DefaultLayout` has unless the caller assigns it; the decoding functions take
the current value as their parameter `dl`. -/
def defaultLayout : Layout := 1

def guess0 (c : Option (List Ord)) : Outcome Layout :=
  match (c.getD []).length with
  | 0 => .err (.dimTooLow 0)
  | 1 => .err (.dimTooLow 1)
  | 2 => .ok 1
  | 3 => .ok 2
  | 4 => .ok 4
  | n => .ok n

def guess1 (dl : Layout) : List (Option (List Ord)) → Outcome Layout
  | [] => .ok dl
  | c :: _ => guess0 c

def guess2 (dl : Layout) : List (List (Option (List Ord))) → Outcome Layout
  | [] => .ok dl
  | cs :: _ => guess1 dl cs

def guess3 (dl : Layout) : List (List (List (Option (List Ord)))) → Outcome Layout
  | [] => .ok dl
  | css :: _ => guess2 dl css

/-! ## The Geometry struct -/

structure GS where
  type : String := ""
  bbox : Option J := none
  crsSet : Bool := false
  coordinates : Option J := none
  geometries : Option J := none
  deriving Inhabited

/-- Can the value be stored in an `interface{}` / map value (every number must fit a float64)? -/
def anyOK (parse : Parse) : Nat → J → Bool
  | 0, _ => true
  | _, .num s => (parse s.toList).isSome
  | fuel + 1, .arr xs => xs.all (anyOK parse fuel)
  | fuel + 1, .obj kvs => kvs.all fun kv => anyOK parse fuel kv.2
  | _, _ => true

def crsOK (parse : Parse) (fuel : Nat) : J → Bool
  | .null => true
  | .obj kvs => kvs.all fun (k, v) =>
      match fieldOf ["type", "properties"] k with
      | some "type" => (match v with | .str _ | .null => true | _ => false)
      | some "properties" => (match v with | .null => true | .obj _ => anyOK parse fuel v | _ => false)
      | _ => true
  | _ => false

/-- Decode a JSON object into an existing Geometry struct: keys in document order, later
duplicates overwrite; `ok := false` records an encoding/json type error (reported at the end). -/
def gsAssign (parse : Parse) (fuel : Nat) (st : GS × Bool) (kv : String × J) : GS × Bool :=
  let (g, ok) := st
  match fieldOf ["type", "bbox", "crs", "coordinates", "geometries"] kv.1 with
  | some "type" =>
      (match kv.2 with
       | .str s => ({ g with type := s }, ok)
       | .null => (g, ok)
       | _ => (g, false))
  | some "bbox" => ({ g with bbox := if kv.2 == .null then none else some kv.2 }, ok)
  | some "crs" => (g, ok && crsOK parse fuel kv.2)
  | some "coordinates" => ({ g with coordinates := if kv.2 == .null then none else some kv.2 }, ok)
  | some "geometries" => ({ g with geometries := if kv.2 == .null then none else some kv.2 }, ok)
  | _ => (g, ok)

def gsOf (parse : Parse) (fuel : Nat) (cur : GS) : J → Outcome GS
  | .obj kvs =>
      let (g, ok) := kvs.foldl (gsAssign parse fuel) (cur, true)
      if ok then .ok g else .err .json
  | _ => .err .json

/-! ## Geometry.Decode -/

def unNil (cs : List (Option (List Ord))) : List (List Ord) := cs.map (·.getD [])

/-- Decode; fuel bounds the nesting of GeometryCollections. -/
def decode (dl : Layout) (parse : Parse) : Nat → GS → Outcome WGeom
  | 0, _ => .err (.other "fuel")
  | fuel + 1, g =>
    match g.type with
    | "Point" =>
        match g.coordinates with
        | none => .ok (.point ⟨0, 0, [], 0⟩)
        | some j => do
            let c ← decFloats parse j
            if (c.getD []).isEmpty then .ok (.point ⟨dl, dl.stride, [], 0⟩)
            else
              let l ← guess0 c
              let p ← Point.setCoords l (c.getD [])
              .ok (.point p)
    | "LineString" =>
        match g.coordinates with
        | none => .ok (.lineString ⟨0, 0, [], 0⟩)
        | some j => do
            let cs ← decCoords1 parse j
            let l ← guess1 dl cs
            let p ← Line.setCoords l (unNil cs)
            .ok (.lineString p)
    | "Polygon" =>
        match g.coordinates with
        | none => .ok (.polygon ⟨0, 0, [], [], 0⟩)
        | some j => do
            let cs ← decCoords2 parse j
            let l ← guess2 dl cs
            let p ← Poly.setCoords l (cs.map unNil)
            .ok (.polygon p)
    | "MultiPoint" =>
        match g.coordinates with
        | none => .ok (.multiPoint ⟨0, 0, [], [], 0⟩)
        | some j => do
            let cs ← decCoords1 parse j
            let l ← guess1 dl cs
            let p ← MPoint.setCoords l cs
            .ok (.multiPoint p)
    | "MultiLineString" =>
        match g.coordinates with
        | none => .ok (.multiLineString ⟨0, 0, [], [], 0⟩)
        | some j => do
            let cs ← decCoords2 parse j
            let l ← guess2 dl cs
            let p ← Poly.setCoords l (cs.map unNil)
            .ok (.multiLineString p)
    | "MultiPolygon" =>
        match g.coordinates with
        | none => .ok (.multiPolygon ⟨0, 0, [], [], 0⟩)
        | some j => do
            let cs ← decCoords3 parse j
            let l ← guess3 dl cs
            let p ← MPoly.setCoords l (cs.map (·.map unNil))
            .ok (.multiPolygon p)
    | "GeometryCollection" =>
        (match g.geometries with
          | none => Outcome.ok []
          | some (.arr xs) => xs.mapM fun x => match x with
              | .null => Outcome.ok ({} : GS)
              | x => gsOf parse fuel {} x
          | some _ => .err .json) >>= fun (subs : List GS) =>
        subs.mapM (decode dl parse fuel) >>= fun ms =>
        .ok (.collection 0 0 ms)
    | _ => .err .unsupportedType

/-- geojson.Unmarshal: `none` = a nil geometry. -/
def unmarshal (dl : Layout) (parse : Parse) (fuel : Nat) : J → Outcome (Option WGeom)
  | .null => .ok none
  | .obj kvs => do
      let g ← gsOf parse fuel {} (.obj kvs)
      let w ← decode dl parse fuel g
      .ok (some w)
  | _ => .err .json

/-! ## Feature -/

structure BBox where
  layout : Layout
  min : List Ord
  max : List Ord
  deriving Repr, BEq, Inhabited

def decodeBBox (bb : List Ord) : Outcome BBox :=
  match bb.length with
  | 4 => .ok ⟨1, bb.take 2, bb.drop 2⟩
  | 6 => .ok ⟨2, bb.take 3, bb.drop 3⟩
  | n => .err (.dimTooLow n)

/-- geojsonFeature after json.Unmarshal. -/
structure FS where
  type : String := ""
  id : Option J := none
  bbox : Option (List Ord) := none
  geometry : Option GS := none
  properties : Option (List (String × J)) := none
  deriving Inhabited

def fsAssign (parse : Parse) (fuel : Nat) (st : FS × Bool) (kv : String × J) : FS × Bool :=
  let (f, ok) := st
  match fieldOf ["type", "id", "bbox", "geometry", "properties"] kv.1 with
  | some "type" =>
      (match kv.2 with
       | .str s => ({ f with type := s }, ok)
       | .null => (f, ok)
       | _ => (f, false))
  | some "id" =>
      if kv.2 == .null then ({ f with id := none }, ok)
      else if anyOK parse fuel kv.2 then ({ f with id := some kv.2 }, ok) else (f, false)
  | some "bbox" =>
      (match decFloats parse kv.2 with
       | .ok v => ({ f with bbox := v }, ok)
       | _ => (f, false))
  | some "geometry" =>
      (match kv.2 with
       | .null => ({ f with geometry := none }, ok)
       | .obj kvs =>
          (match gsOf parse fuel (f.geometry.getD {}) (.obj kvs) with
           | .ok g => ({ f with geometry := some g }, ok)
           | _ => ({ f with geometry := some (f.geometry.getD {}) }, false))
       | _ => (f, false))
  | some "properties" =>
      (match kv.2 with
       | .null => ({ f with properties := none }, ok)
       | .obj kvs =>
          if anyOK parse fuel (.obj kvs) then ({ f with properties := some (f.properties.getD [] ++ kvs) }, ok)
          else (f, false)
       | _ => (f, false))
  | _ => (f, ok)

/-- A decoded Feature. -/
structure Feat where
  id : String
  bbox : Option BBox
  geometry : Option WGeom
  properties : Option (List (String × J))
  deriving Inhabited

/-- Feature.UnmarshalJSON; `fmtShortest` is strconv.FormatFloat(v, 'f', -1, 64). -/
def featureOf (dl : Layout) (parse : Parse) (fmtShortest : Ord → String) (fuel : Nat) : J → Outcome Feat
  | .obj kvs => do
      let (f, ok) := kvs.foldl (fsAssign parse fuel) (({} : FS), true)
      if !ok then .err .json else
      if f.type != "Feature" then .err .unsupportedType else
      let id ← match f.id with
        | none => Outcome.ok ""
        | some (.str s) => .ok s
        | some (.num s) => (match parse s.toList with
            | some v => .ok (fmtShortest v)
            | none => .err .json)
        | some _ => .err .json
      let bbox ← match f.bbox with
        | none => Outcome.ok none
        | some bb => do let b ← decodeBBox bb; .ok (some b)
      let geometry ← match f.geometry with
        | none => Outcome.ok none
        | some g => do let w ← decode dl parse fuel g; .ok (some w)
      .ok ⟨id, bbox, geometry, f.properties⟩
  | .null => .err .unsupportedType      -- UnmarshalJSON("null"): nothing is set, Type stays ""
  | _ => .err .json

/-! ## FeatureCollection -/

structure FC where
  bbox : Option BBox
  features : List (Option Feat)
  deriving Inhabited

/-- encoding/json saves the first type error and carries on, but an error returned by an
Unmarshaler (here Feature.UnmarshalJSON) aborts the decoding at once and is the one reported. -/
structure FCS where
  type : String := ""
  bbox : Option (List Ord) := none
  features : List (Option Feat) := []
  typeErr : Bool := false
  hardErr : Option Err := none
  deriving Inhabited

def FCS.fail (s : FCS) (_ : Err) : FCS := { s with typeErr := true }
def FCS.abort (s : FCS) (e : Err) : FCS := if s.hardErr.isNone then { s with hardErr := some e } else s
def FCS.firstErr (s : FCS) : Option Err :=
  match s.hardErr with
  | some e => some e
  | none => if s.typeErr then some .json else none

def fcAssign (dl : Layout) (parse : Parse) (fmtShortest : Ord → String) (fuel : Nat) (s : FCS) (kv : String × J) : FCS :=
  match fieldOf ["type", "bbox", "features"] kv.1 with
  | some "type" =>
      (match kv.2 with
       | .str t => { s with type := t }
       | .null => s
       | _ => s.fail .json)
  | some "bbox" =>
      (match decFloats parse kv.2 with
       | .ok v => { s with bbox := v }
       | _ => s.fail .json)
  | some "features" =>
      (match kv.2 with
       | .null => { s with features := [] }
       | .arr xs =>
          xs.foldl (fun (s : FCS) x =>
            match x with
            | .null => { s with features := s.features ++ [none] }
            | x => match featureOf dl parse fmtShortest fuel x with
                | .ok f => { s with features := s.features ++ [some f] }
                | .err e => s.abort e
                | .panic m => s.abort (.other m)) { s with features := [] }
       | _ => s.fail .json)
  | _ => s

def featureCollectionOf (dl : Layout) (parse : Parse) (fmtShortest : Ord → String) (fuel : Nat) : J → Outcome FC
  | .obj kvs => do
      let s := kvs.foldl (fcAssign dl parse fmtShortest fuel) ({} : FCS)
      match s.firstErr with
      | some e => .err e
      | none =>
          let bbox ← match s.bbox with
            | none => Outcome.ok none
            | some bb => do let b ← decodeBBox bb; .ok (some b)
          if s.type != "FeatureCollection" then .err .unsupportedType
          else .ok ⟨bbox, s.features⟩
  | .null => .err .unsupportedType
  | _ => .err .json

end GeomVerif.GeoJson
