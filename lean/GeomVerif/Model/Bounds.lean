/-
Model of /repo bounds.go (NewBounds, Extend, extendLayout, extendStride,
extendFlatCoords, extendXYZMFlatCoordsWithXYM, IsEmpty, Overlaps, OverlapsPoint)
and of GeometryCollection.Layout()/Bounds().  Generic in the ordinate type through
an explicit record of order operations, so the same definitions run on `Float`
(driver) and are reasoned about over any linear order (theorems).
-/
import GeomVerif.Model.Multi

namespace GeomVerif
variable {α : Type}

/-- math.Min / math.Max / `<` / +Inf / -Inf. -/
structure OrdOps (α : Type) where
  min : α → α → α
  max : α → α → α
  lt : α → α → Bool
  top : α
  bot : α

structure Bounds (α : Type) where
  layout : Layout
  min : List α
  max : List α
  deriving Repr, BEq, DecidableEq

def newBounds (o : OrdOps α) (l : Layout) : Bounds α :=
  ⟨l, List.replicate l.stride o.top, List.replicate l.stride o.bot⟩

/-- `for s := b.layout.Stride(); s < stride; s++ { append +Inf / -Inf }` -/
def Bounds.extendStride (o : OrdOps α) (b : Bounds α) (stride : Nat) : Bounds α :=
  let k := stride - b.layout.stride
  { b with min := b.min ++ List.replicate k o.top, max := b.max ++ List.replicate k o.bot }

def Bounds.extendLayout (o : OrdOps α) (b : Bounds α) (l : Layout) : Outcome (Bounds α) :=
  if b.layout = 2 ∧ l = 3 then
    .ok { layout := 4, min := b.min ++ [o.top], max := b.max ++ [o.bot] }
  else if b.layout = 3 ∧ (l = 2 ∨ l = 4) then
    match b.min, b.max with
    | x :: y :: m :: _, x' :: y' :: m' :: _ =>
        .ok { layout := 4, min := [x, y, o.top, m], max := [x', y', o.bot, m'] }
    | _, _ => .panic "slice bounds"
  else if b.layout < l then
    .ok { (b.extendStride o l.stride) with layout := l }
  else .ok b

/-- `acc[j] = f(acc[j], c[j])` for every `j < len(c)`; index panic when `acc` is shorter. -/
def updInto (f : α → α → α) : List α → List α → Outcome (List α)
  | acc, [] => .ok acc
  | [], _ :: _ => .panic "index out of range"
  | a :: acc, c :: cs => do
      let r ← updInto f acc cs
      .ok (f a c :: r)

def extendLoop (o : OrdOps α) (stride : Nat) :
    Nat → List α → List α → List α → Outcome (List α × List α)
  | 0, _, mn, mx => .ok (mn, mx)
  | n + 1, rest, mn, mx =>
      if rest.length < stride then .panic "index out of range"
      else do
        let c := rest.take stride
        let mn' ← updInto o.min mn c
        let mx' ← updInto o.max mx c
        extendLoop o stride n (rest.drop stride) mn' mx'

def Bounds.extendFlatCoords (o : OrdOps α) (b : Bounds α) (flat : List α)
    (offset end_ stride : Nat) : Outcome (Bounds α) :=
  let b := b.extendStride o stride
  if stride = 0 then (if offset < end_ then .panic "non-terminating loop" else .ok b)
  else do
    let n := (end_ - offset + stride - 1) / stride
    let (mn, mx) ← extendLoop o stride n (flat.drop offset) b.min b.max
    .ok { b with min := mn, max := mx }

/-- One `[x, y, m]` coordinate into slots 0, 1, 3. -/
def updXYM (f : α → α → α) : List α → List α → Outcome (List α)
  | a0 :: a1 :: a2 :: a3 :: rest, [x, y, m] => .ok (f a0 x :: f a1 y :: a2 :: f a3 m :: rest)
  | _, _ => .panic "index out of range"

def extendXYMLoop (o : OrdOps α) : Nat → List α → List α → List α → Outcome (List α × List α)
  | 0, _, mn, mx => .ok (mn, mx)
  | n + 1, rest, mn, mx =>
      if rest.length < 3 then .panic "index out of range"
      else do
        let c := rest.take 3
        let mn' ← updXYM o.min mn c
        let mx' ← updXYM o.max mx c
        extendXYMLoop o n (rest.drop 3) mn' mx'

def Bounds.extendXYZMWithXYM (o : OrdOps α) (b : Bounds α) (flat : List α)
    (offset end_ : Nat) : Outcome (Bounds α) := do
  let n := (end_ - offset + 2) / 3
  let (mn, mx) ← extendXYMLoop o n (flat.drop offset) b.min b.max
  .ok { b with min := mn, max := mx }

/-- `Bounds.Extend(g)` for a flat (non-collection) geometry. -/
def Bounds.extendFlat (o : OrdOps α) (b : Bounds α) (gl : Layout) (gstride : Nat)
    (flat : List α) : Outcome (Bounds α) := do
  let b ← b.extendLayout o gl
  if b.layout = 4 ∧ gl = 3 then b.extendXYZMWithXYM o flat 0 flat.length
  else b.extendFlatCoords o flat 0 flat.length gstride

/-- Geometry tree: flat geometries and (nested) collections. -/
inductive BGeom (α : Type) where
  | flat (layout : Layout) (stride : Nat) (coords : List α)
  | coll (fixed : Layout) (gs : List (BGeom α))
  deriving Repr

mutual
/-- `T.Layout()`, with geometrycollection.go `Layout()` for collections. -/
def BGeom.layoutOf : BGeom α → Layout
  | .flat l _ _ => l
  | .coll fixed gs => if fixed ≠ 0 then fixed else BGeom.layoutsFold 0 gs
def BGeom.layoutsFold (acc : Layout) : List (BGeom α) → Layout
  | [] => acc
  | g :: gs => BGeom.layoutsFold (GC.layoutStep acc g.layoutOf) gs
end

mutual
/-- `Bounds.Extend(g)` (after the D2 repair: recursion into collections). -/
def Bounds.extendGeom (o : OrdOps α) (b : Bounds α) : BGeom α → Outcome (Bounds α)
  | .flat l s c => b.extendFlat o l s c
  | .coll _ gs => Bounds.extendGeoms o b gs
def Bounds.extendGeoms (o : OrdOps α) (b : Bounds α) : List (BGeom α) → Outcome (Bounds α)
  | [] => .ok b
  | g :: gs => do
      let b' ← Bounds.extendGeom o b g
      Bounds.extendGeoms o b' gs
end

/-- `g.Bounds()` for any geometry: geom0.Bounds for flat ones,
    GeometryCollection.Bounds for collections. -/
def BGeom.bounds (o : OrdOps α) : BGeom α → Outcome (Bounds α)
  | .flat l s c => (newBounds o l).extendFlatCoords o c 0 c.length s
  | .coll f gs => Bounds.extendGeoms o (newBounds o (BGeom.coll f gs).layoutOf) gs

def Bounds.isEmpty (o : OrdOps α) (b : Bounds α) : Outcome Bool :=
  if b.layout = 0 then .ok true
  else
    let rec go : Nat → List α → List α → Outcome Bool
      | 0, _, _ => .ok false
      | n + 1, mx :: mxs, mn :: mns => if o.lt mx mn then .ok true else go n mxs mns
      | _ + 1, _, _ => .panic "index out of range"
    go b.layout.stride b.max b.min

/-- `b.Overlaps(layout, b2)` -/
def overlapsLoop (o : OrdOps α) : Nat → List α → List α → List α → List α → Outcome Bool
  | 0, _, _, _, _ => .ok true
  | n + 1, mn :: mns, mx :: mxs, mn2 :: mn2s, mx2 :: mx2s =>
      if o.lt mx2 mn || o.lt mx mn2 then .ok false else overlapsLoop o n mns mxs mn2s mx2s
  | _ + 1, _, _, _, _ => .panic "index out of range"

def Bounds.overlaps (o : OrdOps α) (b : Bounds α) (l : Layout) (b2 : Bounds α) : Outcome Bool :=
  overlapsLoop o l.stride b.min b.max b2.min b2.max

def Bounds.overlapsPoint (o : OrdOps α) (b : Bounds α) (l : Layout) (p : List α) : Outcome Bool :=
  overlapsLoop o l.stride b.min b.max p p

end GeomVerif
