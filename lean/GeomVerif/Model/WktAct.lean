/-
The vocabulary of semantic actions of the WKT grammar (encoding/wkt/wkt.y as compiled into
wkt.gen.go).  `harness extract` translates each `case N:` body of the generated parser's
`switch wktnt` into one of these constructors (Generated/WktTables.lean); Model/WktParse.lean
gives each constructor its meaning.  Numbers are positions in `wktDollar`.
-/
namespace GeomVerif.WktAct

/-- geom.Layout values that occur in the grammar actions. -/
inductive L where
  | lNoLayout | lXY | lXYZ | lXYM | lXYZM
  deriving Repr, BEq, DecidableEq, Inhabited

def L.toNat : L → Nat
  | .lNoLayout => 0 | .lXY => 1 | .lXYZ => 2 | .lXYM => 3 | .lXYZM => 4

inductive Act where
  | start (geom : Nat)
  | collDone (coll coll' : Nat)
  | newPointFlat (cl : Nat)
  | newPointEmpty
  | newLineStringFlat (cl : Nat)
  | newLineStringEmpty
  | newPolygonFlat (fr fr' : Nat)
  | newPolygonEmpty
  | newMultiPointFlat (fr fr' : Nat)
  | newMultiPointEmpty
  | newMultiLineStringFlat (fr fr' : Nat)
  | newMultiLineStringEmpty
  | newMultiPolygonFlat (mp mp' : Nat)
  | newMultiPolygonEmpty
  | baseAllowed
  | setLayout (l : L)
  | pushFrame (l : L)
  | nonEmptyAllowed
  | baseEmptyAllowed
  | newCollection (gl : Nat)
  | emptyCollection
  | copyGeomList (gl : Nat)
  | appendGeomList (gl g : Nat)
  | singleGeomList (g : Nat)
  | copyMP (mp : Nat)
  | appendMP (a b : Nat)
  | makeMP (fr : Nat)
  | makeFR (cl : Nat)
  | copyFR (fr : Nat)
  | appendFR (a b : Nat)
  | ring (cl cl' : Nat)
  | lineCheck (cl : Nat)
  | pointCheck (cl : Nat)
  | copyCL (cl : Nat)
  | appendCL (a b : Nat)
  | appendCoord (cl c : Nat)
  | singleCoord (c : Nat)
  | nilCL
  | unknown (body : String)
  deriving Repr, BEq, DecidableEq, Inhabited

end GeomVerif.WktAct
