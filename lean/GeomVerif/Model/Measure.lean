/-
Model of flat.go doubleArea1..3 / length1..3 (after the D1 repair: empty polygons are
skipped) and the per-type Area()/Length().  Generic in the arithmetic through an
explicit record so the same definitions run on `Float` (bit-exact mirror of Go on
amd64: no fused multiply-add) and are reasoned about over commutative rings.
-/
import GeomVerif.Model.Multi

namespace GeomVerif
variable {α : Type}

structure Arith (α : Type) where
  zero : α
  add : α → α → α
  sub : α → α → α
  mul : α → α → α
  sqrt : α → α
  half : α → α

/-- Number of iterations of `for i := offset+stride; i < end; i += stride`. -/
def loopCount (offset end_ stride : Nat) : Nat :=
  (end_ - (offset + stride) + stride - 1) / stride

def doubleArea1Loop (A : Arith α) (flat : List α) (stride : Nat) : Nat → Nat → α → Outcome α
  | 0, _, acc => .ok acc
  | n + 1, i, acc => do
      let y1 ← idx flat (i + 1)
      let y0 ← idx flat (i + 1 - stride)
      let x1 ← idx flat i
      let x0 ← idx flat (i - stride)
      doubleArea1Loop A flat stride n (i + stride) (A.add acc (A.mul (A.sub y1 y0) (A.add x1 x0)))

def doubleArea1 (A : Arith α) (flat : List α) (offset end_ stride : Nat) : Outcome α :=
  if stride = 0 then (if offset < end_ then .panic "non-terminating loop" else .ok A.zero)
  else doubleArea1Loop A flat stride (loopCount offset end_ stride) (offset + stride) A.zero

def doubleArea2 (A : Arith α) (flat : List α) (stride : Nat) : List Nat → Nat → α → Outcome α
  | [], _, acc => .ok acc
  | e :: ends, offset, acc => do
      let a ← doubleArea1 A flat offset e stride
      doubleArea2 A flat stride ends e (A.add acc a)

def doubleArea3 (A : Arith α) (flat : List α) (stride : Nat) : List (List Nat) → Nat → α → Outcome α
  | [], _, acc => .ok acc
  | ends :: endss, offset, acc =>
      match ends.getLast? with
      | none => doubleArea3 A flat stride endss offset acc
      | some last => do
          let a ← doubleArea2 A flat stride ends offset A.zero
          doubleArea3 A flat stride endss last (A.add acc a)

def length1Loop (A : Arith α) (flat : List α) (stride : Nat) : Nat → Nat → α → Outcome α
  | 0, _, acc => .ok acc
  | n + 1, i, acc => do
      let x1 ← idx flat i
      let x0 ← idx flat (i - stride)
      let y1 ← idx flat (i + 1)
      let y0 ← idx flat (i + 1 - stride)
      let dx := A.sub x1 x0
      let dy := A.sub y1 y0
      length1Loop A flat stride n (i + stride)
        (A.add acc (A.sqrt (A.add (A.mul dx dx) (A.mul dy dy))))

def length1 (A : Arith α) (flat : List α) (offset end_ stride : Nat) : Outcome α :=
  if stride = 0 then (if offset < end_ then .panic "non-terminating loop" else .ok A.zero)
  else length1Loop A flat stride (loopCount offset end_ stride) (offset + stride) A.zero

def length2 (A : Arith α) (flat : List α) (stride : Nat) : List Nat → Nat → α → Outcome α
  | [], _, acc => .ok acc
  | e :: ends, offset, acc => do
      let a ← length1 A flat offset e stride
      length2 A flat stride ends e (A.add acc a)

def length3 (A : Arith α) (flat : List α) (stride : Nat) : List (List Nat) → Nat → α → Outcome α
  | [], _, acc => .ok acc
  | ends :: endss, offset, acc =>
      match ends.getLast? with
      | none => length3 A flat stride endss offset acc
      | some last => do
          let a ← length2 A flat stride ends offset A.zero
          length3 A flat stride endss last (A.add acc a)

/-- The seven geometry types as (type, stride, flat, ends / endss). -/
inductive MGeom (α : Type) where
  | point (stride : Nat) (flat : List α)
  | lineString (stride : Nat) (flat : List α)
  | linearRing (stride : Nat) (flat : List α)
  | polygon (stride : Nat) (flat : List α) (ends : List Nat)
  | multiPoint (stride : Nat) (flat : List α) (ends : List Nat)
  | multiLineString (stride : Nat) (flat : List α) (ends : List Nat)
  | multiPolygon (stride : Nat) (flat : List α) (endss : List (List Nat))
  deriving Repr

def MGeom.area (A : Arith α) : MGeom α → Outcome α
  | .point _ _ | .lineString _ _ | .multiPoint _ _ _ | .multiLineString _ _ _ => .ok A.zero
  | .linearRing s f => (doubleArea1 A f 0 f.length s).map A.half
  | .polygon s f ends => (doubleArea2 A f s ends 0 A.zero).map A.half
  | .multiPolygon s f endss => (doubleArea3 A f s endss 0 A.zero).map A.half

def MGeom.length (A : Arith α) : MGeom α → Outcome α
  | .point _ _ | .multiPoint _ _ _ => .ok A.zero
  | .lineString s f | .linearRing s f => length1 A f 0 f.length s
  | .polygon s f ends | .multiLineString s f ends => length2 A f s ends 0 A.zero
  | .multiPolygon s f endss => length3 A f s endss 0 A.zero

end GeomVerif
