/-
Model of the multi-part geometry operations: Push, part accessors, Num*, Reverse
(polygon.go, multilinestring.go, multipoint.go, multipolygon.go,
geometrycollection.go, flat.go reverse1..3).  Receiver mutation is state passing.
-/
import GeomVerif.Model.Flat

namespace GeomVerif
variable {α : Type}

def idx {β} (xs : List β) (i : Nat) : Outcome β :=
  match xs[i]? with
  | some x => .ok x
  | none => .panic "index out of range"

/-- `n` consecutive chunks of `s` elements. -/
def chunkN (s : Nat) : Nat → List α → List (List α)
  | 0, _ => []
  | n + 1, xs => xs.take s :: chunkN s n (xs.drop s)

/-- flat.go `reverse1` (after the D10 repair: stride 0 returns at once).  The in-place
two-index swap loop is summarised by its effect on whole coordinates: the
`(end-offset)/stride` coordinates of `flat[offset:end]` appear in reverse order. -/
def reverse1 (flat : List α) (offset end_ stride : Nat) : Outcome (List α) :=
  if stride = 0 then .ok flat
  else if end_ < offset + stride then .ok flat
  else if flat.length < end_ then .panic "index out of range"
  else
    let mid := (flat.drop offset).take (end_ - offset)
    let n := mid.length / stride
    .ok (flat.take offset ++ (chunkN stride n mid).reverse.flatten ++ mid.drop (n * stride)
          ++ flat.drop end_)

def reverse2 (flat : List α) (offset : Nat) : List Nat → Nat → Outcome (List α)
  | [], _ => .ok flat
  | e :: ends, stride => do
      let f ← reverse1 flat offset e stride
      reverse2 f e ends stride

def reverse3 (flat : List α) (offset : Nat) : List (List Nat) → Nat → Outcome (List α)
  | [], _ => .ok flat
  | ends :: endss, stride =>
      match ends.getLast? with
      | none => reverse3 flat offset endss stride
      | some last => do
          let f ← reverse2 flat offset ends stride
          reverse3 f last endss stride

/-! ## Polygon / MultiLineString (geom2 + Push of a geom1) -/

def G2.push (g : G2 α) (p : G1 α) : Outcome (G2 α) :=
  if p.layout ≠ g.layout then .err (.layoutMismatch p.layout g.layout)
  else
    let f := g.flat ++ p.flat
    .ok { g with flat := f, ends := g.ends ++ [f.length] }

/-- `Polygon.LinearRing(i)` / `MultiLineString.LineString(i)`. -/
def G2.part (g : G2 α) (i : Nat) : Outcome (G1 α) := do
  let offset ← if i > 0 then idx g.ends (i - 1) else .ok 0
  let e ← idx g.ends i
  let f ← slice g.flat offset e
  .ok { layout := g.layout, stride := g.layout.stride, flat := f }

def G2.num (g : G2 α) : Nat := g.ends.length

def G2.reverse (g : G2 α) : Outcome (G2 α) := do
  let f ← reverse2 g.flat 0 g.ends g.stride
  .ok { g with flat := f }

/-! ## MultiPoint -/

def MPoint.push (g : G2 α) (p : G1 α) : Outcome (G2 α) :=
  if p.layout ≠ g.layout then .err (.layoutMismatch p.layout g.layout)
  else
    let f := if p.flat.isEmpty then g.flat else g.flat ++ p.flat
    .ok { g with flat := f, ends := g.ends ++ [f.length] }

/-- `MultiPoint.Coord(i)`: `none` is Go's nil (empty member). -/
def MPoint.coord (g : G2 α) (i : Nat) : Outcome (Option (List α)) := do
  let before ← if i > 0 then idx g.ends (i - 1) else .ok 0
  let e ← idx g.ends i
  if e = before then .ok none
  else do
    let f ← slice g.flat before e
    .ok (some f)

/-- `MultiPoint.Point(i)`. -/
def MPoint.point (g : G2 α) (i : Nat) : Outcome (G1 α) := do
  let c ← MPoint.coord g i
  .ok { layout := g.layout, stride := g.layout.stride, flat := c.getD [] }

/-! ## MultiPolygon -/

def G3.push (g : G3 α) (p : G2 α) : Outcome (G3 α) :=
  if p.layout ≠ g.layout then .err (.layoutMismatch p.layout g.layout)
  else
    let offset := g.flat.length
    let ends := p.ends.map (· + offset)
    .ok { g with flat := g.flat ++ p.flat, endss := g.endss ++ [ends] }

/-- The scan-back of `MultiPolygon.Polygon(i)`: last end of the nearest non-empty
polygon before `i`, or 0. -/
def scanBack : List (List Nat) → Nat
  | [] => 0
  | ends :: rest => match ends.getLast? with
      | some e => e
      | none => scanBack rest

def G3.polygon (g : G3 α) (i : Nat) : Outcome (G2 α) := do
  let ends ← idx g.endss i
  match ends.getLast? with
  | none => .ok { layout := g.layout, stride := g.layout.stride, flat := [], ends := [] }
  | some last =>
    let offset := scanBack (g.endss.take i).reverse
    do
      let f ← slice g.flat offset last
      .ok { layout := g.layout, stride := g.layout.stride, flat := f,
            ends := ends.map (· - offset) }

def G3.num (g : G3 α) : Nat := g.endss.length

def G3.reverse (g : G3 α) : Outcome (G3 α) := do
  let f ← reverse3 g.flat 0 g.endss g.stride
  .ok { g with flat := f }

/-! ## GeometryCollection (members are opaque apart from their layout) -/

structure GC (μ : Type) where
  layout : Layout := 0
  geoms : List (Layout × μ) := []
  srid : Int := 0
  deriving Repr, BEq, DecidableEq

def GC.push {μ} (g : GC μ) (gs : List (Layout × μ)) : Outcome (GC μ) :=
  if g.layout ≠ 0 then
    match gs.find? (fun m => m.1 != g.layout) with
    | some m => .err (.layoutMismatch m.1 g.layout)
    | none => .ok { g with geoms := g.geoms ++ gs }
  else .ok { g with geoms := g.geoms ++ gs }

/-- geometrycollection.go `Layout()`: fixed layout, else the smallest covering layout. -/
def GC.layoutStep (maxL l : Layout) : Layout :=
  if l = 2 then (if maxL = 3 then 4 else if l > maxL then l else maxL)
  else if l = 3 then (if maxL = 2 then 4 else if l > maxL then l else maxL)
  else if l > maxL then l else maxL

def GC.getLayout {μ} (g : GC μ) : Layout :=
  if g.layout ≠ 0 then g.layout else (g.geoms.map (·.1)).foldl GC.layoutStep 0

/-- `CheckLayout` / `SetLayout`. -/
def GC.setLayout {μ} (g : GC μ) (l : Layout) : Outcome (GC μ) :=
  if l ≠ 0 then
    match g.geoms.find? (fun m => m.1 != l) with
    | some m => .err (.layoutMismatch l m.1)
    | none => .ok { g with layout := l }
  else .ok { g with layout := l }

end GeomVerif
