/-
Geometry-level mutators compiled to the generic slice operations of the heap model
(C16): what Push / Reverse / TransformInPlace / SetCoords / writes through
FlatCoords(), Ends(), Endss() / Bounds.Set do to the slices of an object.
-/
import GeomVerif.Model.Heap
import GeomVerif.Model.Multi

namespace GeomVerif.Heap
open GeomVerif

inductive Kind where
  | g1 | g2poly | g2mp | g3 | bounds | coord
  deriving Repr, BEq, DecidableEq

inductive Mut where
  | setOrd (i : Nat) (v : Cell)
  | setEnd (row j : Nat) (v : Cell)
  | reverse
  | xform                                   -- TransformInPlace flipping the low mantissa bit
  | push (pflat : List Cell) (pends : List Nat)
  | setCoords (flat ends : Option (List Cell))
  | boundsSet (mins maxs : List Cell)
  deriving Repr

def natsOf (cs : List Cell) : List Nat := cs.map UInt64.toNat
def cellsOf (ns : List Nat) : List Cell := ns.map UInt64.ofNat

def okOr {β} (d : β) : Outcome β → β
  | .ok b => b
  | _ => d

/-- Scalars are `[layout, stride, srid]` for geometries. -/
def strideOf (v : ObjV) : Nat := (v.scalars.getD 1 0).toNat

def compile (k : Kind) (v : ObjV) : Mut → List GOp
  | .setOrd i x => [.wr 0 i x]
  | .setEnd r j x => [.wr (1 + r) j x]
  | .xform =>
      match v.slices[0]? with
      | some (some f) => [.wrAll 0 (f.map (· ^^^ 1))]
      | _ => []
  | .reverse =>
      let flat := (v.slices.getD 0 none).getD []
      let s := strideOf v
      match k with
      | .g1 => [.wrAll 0 (okOr flat (reverse1 flat 0 flat.length s))]
      | .g2poly | .g2mp =>
          let ends := natsOf ((v.slices.getD 1 none).getD [])
          [.wrAll 0 (okOr flat (reverse2 flat 0 ends s))]
      | .g3 =>
          let rows := (v.slices.drop 1).map fun r => natsOf (r.getD [])
          [.wrAll 0 (okOr flat (reverse3 flat 0 rows s))]
      | _ => []
  | .push pflat pends =>
      let flen := ((v.slices.getD 0 none).getD []).length
      match k with
      | .g2poly => [.app 0 pflat, .app 1 (cellsOf [flen + pflat.length])]
      | .g2mp =>
          if pflat.isEmpty then [.app 1 (cellsOf [flen])]
          else [.app 0 pflat, .app 1 (cellsOf [flen + pflat.length])]
      | .g3 =>
          [.app 0 pflat,
           .addSlice (if pends.isEmpty then none else some (cellsOf (pends.map (· + flen))))]
      | _ => []
  | .setCoords f e =>
      match k with
      | .g1 | .coord => [.setFresh 0 f]
      | _ => [.setFresh 0 f, .setFresh 1 e]
  | .boundsSet mins maxs =>
      -- Bounds.Set assigns the first len(args)/2 dimensions; a box that holds more keeps the rest
      let cur0 := (v.slices.getD 0 none).getD []
      let cur1 := (v.slices.getD 1 none).getD []
      [.wrAll 0 (mins ++ cur0.drop mins.length), .wrAll 1 (maxs ++ cur1.drop maxs.length)]

/-- Run a geometry-level history: each mutator is compiled against the current value of the
object it addresses, then executed in the heap and in the value semantics. -/
def runMutH (grow : Nat → Nat → Nat) (k : Kind) (h : Heap) (a b : ObjH) :
    List (Bool × Mut) → List (ObjV × ObjV)
  | [] => []
  | (side, m) :: rest =>
      let cur := if side then absObj h b else absObj h a
      let ops := (compile k cur m).map fun op => (side, op)
      let (h', a', b') := runH grow h a b ops
      (absObj h' a', absObj h' b') :: runMutH grow k h' a' b' rest

def runMutV (k : Kind) (a b : ObjV) : List (Bool × Mut) → List (ObjV × ObjV)
  | [] => []
  | (side, m) :: rest =>
      let cur := if side then b else a
      let ops := (compile k cur m).map fun op => (side, op)
      let (a', b') := runV a b ops
      (a', b') :: runMutV k a' b' rest

end GeomVerif.Heap
