/-
Model of xy/rdp_simplify.go: SimplifyFlatCoords, dpWorker (explicit stack, fuelled),
distanceFromSegmentSquared.  The worker is parametric in the distance function and the
comparison, so theorems hold of the float run as well as of exact arithmetic.
-/
import GeomVerif.Model.Measure

namespace GeomVerif.Rdp
open GeomVerif

/-- What dpWorker needs to know about distances: `dist s e k` = squared distance of point `k`
from segment (s,e); `gt` = Go's `>`; `zero` = 0.0; `thr2` = threshold². -/
structure DistOps (δ : Type) where
  dist : Nat → Nat → Nat → δ
  gt : δ → δ → Bool
  zero : δ
  thr2 : δ

variable {δ : Type}

/-- The scan `for i := start+1; i < end; i++ { if dist > maxDist {...} }`: first maximum. -/
def scan (D : DistOps δ) (s e : Nat) : Nat → Nat → δ → Nat → δ × Nat
  | 0, _, maxDist, maxIndex => (maxDist, maxIndex)
  | cnt + 1, i, maxDist, maxIndex =>
      let d := D.dist s e i
      if D.gt d maxDist then scan D s e cnt (i + 1) d i
      else scan D s e cnt (i + 1) maxDist maxIndex

def scanSeg (D : DistOps δ) (s e : Nat) : δ × Nat := scan D s e (e - s - 1) (s + 1) D.zero 0

def setTrue (mask : List Bool) (i : Nat) : List Bool := mask.set i true

/-- dpWorker's loop; the Go stack of ints is a list of (start,end) pairs, head = top. -/
def dpLoop (D : DistOps δ) : Nat → List (Nat × Nat) → List Bool → List Bool
  | 0, _, mask => mask
  | _ + 1, [], mask => mask
  | fuel + 1, (s, e) :: rest, mask =>
      let (maxDist, maxIndex) := scanSeg D s e
      if D.gt maxDist D.thr2 then
        dpLoop D fuel ((maxIndex, e) :: (s, maxIndex) :: rest) (setTrue mask maxIndex)
      else dpLoop D fuel rest mask

/-- SimplifyFlatCoords on `size` points. -/
def simplify (D : DistOps δ) (size : Nat) : List Nat :=
  if size < 3 then List.range size
  else
    let mask0 := setTrue (setTrue (List.replicate size false) 0) (size - 1)
    let mask := dpLoop D (2 * size) [(0, size - 1)] mask0
    (List.range size).filter fun i => mask.getD i false

/-- distanceFromSegmentSquared over an arithmetic record with division and comparisons. -/
structure FieldOps (α : Type) extends Arith α where
  div : α → α → α
  one : α
  lt : α → α → Bool
  isZero : α → Bool

def distSegSq {α : Type} (F : FieldOps α) (ax ay bx by_ px py : α) : α :=
  let dx := F.sub bx ax
  let dy := F.sub by_ ay
  let (x, y) :=
    if !(F.isZero dx) || !(F.isZero dy) then
      let t := F.div (F.add (F.mul (F.sub px ax) dx) (F.mul (F.sub py ay) dy))
        (F.add (F.mul dx dx) (F.mul dy dy))
      if F.lt F.one t then (bx, by_)
      else if F.lt F.zero t then (F.add ax (F.mul dx t), F.add ay (F.mul dy t))
      else (ax, ay)
    else (ax, ay)
  let ex := F.sub px x
  let ey := F.sub py y
  F.add (F.mul ex ex) (F.mul ey ey)

end GeomVerif.Rdp
