/-
Proleptic-Gregorian day-number arithmetic on natural numbers (dates from 0000-03-01 on),
the form in which the kernel can evaluate it quickly.  Model/Igc.lean has the same formulas over
`Int` (needed for the garbage dates a corrupt file can produce); Properties/C19.lean relates them.
-/
namespace GeomVerif.Calendar

def civilN (n : Nat) : Nat × Nat × Nat :=
  let z := n + 719468
  let era := z / 146097
  let doe := z - era * 146097
  let yoe := (doe - doe / 1460 + doe / 36524 - doe / 146096) / 365
  let y := yoe + era * 400
  let doy := doe - (365 * yoe + yoe / 4 - yoe / 100)
  let mp := (5 * doy + 2) / 153
  let d := doy - (153 * mp + 2) / 5 + 1
  let m := if mp < 10 then mp + 3 else mp - 9
  (if m ≤ 2 then y + 1 else y, m, d)

/-- Days since 0000-03-01 of the civil date (y ≥ 1, 1 ≤ m ≤ 12, d ≥ 1). -/
def daysSinceEra (y m d : Nat) : Nat :=
  let y := if m ≤ 2 then y - 1 else y
  let era := y / 400
  let yoe := y - era * 400
  let mp := (m + 9) % 12
  let doy := (153 * mp + 2) / 5 + d - 1
  let doe := yoe * 365 + yoe / 4 - yoe / 100 + doy
  era * 146097 + doe

/-- Days since 1970-01-01 (for dates from 1970 on). -/
def daysN (y m d : Nat) : Nat := daysSinceEra y m d - 719468

/-- What is checked for one day number of the window. -/
def dayOK (n : Nat) : Bool :=
  daysSinceEra (civilN n).1 (civilN n).2.1 (civilN n).2.2 == n + 719468 &&
  decide (1 ≤ (civilN n).2.1 ∧ (civilN n).2.1 ≤ 12 ∧ 1 ≤ (civilN n).2.2 ∧ (civilN n).2.2 ≤ 31 ∧
    1970 ≤ (civilN n).1 ∧ (civilN n).1 ≤ 2069)

def allBelow (P : Nat → Bool) : Nat → Bool
  | 0 => true
  | n + 1 => P n && allBelow P n

theorem allBelow_spec (P : Nat → Bool) : ∀ n, allBelow P n = true → ∀ k, k < n → P k = true := by
  intro n
  induction n with
  | zero => intro _ k hk; omega
  | succ n ih =>
    intro h k hk
    simp only [allBelow, Bool.and_eq_true] at h
    by_cases e : k = n
    · subst e; exact h.1
    · exact ih h.2 k (by omega)

theorem calendar_window_raw : allBelow dayOK 36525 = true := by decide +kernel

/-- **Calendar bijection on the whole two-digit-year window**: for each of the 36525 days
1970-01-01 … 2069-12-31, day number → civil date → day number is the identity and the civil date
is valid and inside the window (kernel evaluation of all 36525 cases). -/
theorem calendar_window (n : Nat) (h : n < 36525) : dayOK n = true :=
  allBelow_spec dayOK 36525 calendar_window_raw n h

end GeomVerif.Calendar
