/-
Conversions between the abstract geometry (nested coordinates) and the flat model
values, through the C01 model functions (SetCoords / Coords of Model/Flat.lean).
-/
import GeomVerif.Spec.WkbSpec

namespace GeomVerif.WkbSpec
open GeomVerif GeomVerif.Wkb

mutual
/-- Build the library value the way a caller would: New<T>(l).SetCoords(coords).SetSRID(srid). -/
def toModel : AGeom → Outcome WGeom
  | .point l s none => .ok (.point ⟨l, l.stride, [], s⟩)
  | .point l s (some c) => do let g ← Point.setCoords l c; .ok (.point { g with srid := s })
  | .lineString l s cs => do let g ← Line.setCoords l cs; .ok (.lineString { g with srid := s })
  | .polygon l s r => do let g ← Poly.setCoords l r; .ok (.polygon { g with srid := s })
  | .multiPoint l s cs => do let g ← MPoint.setCoords l cs; .ok (.multiPoint { g with srid := s })
  | .multiLineString l s x => do
      let g ← Poly.setCoords l x; .ok (.multiLineString { g with srid := s })
  | .multiPolygon l s x => do let g ← MPoly.setCoords l x; .ok (.multiPolygon { g with srid := s })
  | .collection fx s gs => do let ms ← toModels gs; .ok (.collection fx s ms)
def toModels : List AGeom → Outcome (List WGeom)
  | [] => .ok []
  | g :: gs => do let a ← toModel g; let b ← toModels gs; .ok (a :: b)
end

mutual
/-- Observe a library value through Coords() / Layout() / SRID(). -/
def toAbstract : WGeom → Outcome AGeom
  | .point g =>
      if g.flat.isEmpty then .ok (.point g.layout g.srid none)
      else do let c ← Point.coords g; .ok (.point g.layout g.srid (some c))
  | .lineString g => do let c ← Line.coords g; .ok (.lineString g.layout g.srid c)
  | .polygon g => do let c ← Poly.coords g; .ok (.polygon g.layout g.srid c)
  | .multiPoint g => do let c ← MPoint.coords g; .ok (.multiPoint g.layout g.srid c)
  | .multiLineString g => do let c ← Poly.coords g; .ok (.multiLineString g.layout g.srid c)
  | .multiPolygon g => do let c ← MPoly.coords g; .ok (.multiPolygon g.layout g.srid c)
  | .collection l s gs => do let ms ← toAbstracts gs; .ok (.collection l s ms)
def toAbstracts : List WGeom → Outcome (List AGeom)
  | [] => .ok []
  | g :: gs => do let a ← toAbstract g; let b ← toAbstracts gs; .ok (a :: b)
end

end GeomVerif.WkbSpec
