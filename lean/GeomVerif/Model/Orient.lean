/-
Model of bigxy/big_cga.go: orientationIndexFilter (all five exits, Shewchuk-style
error bound with dpSafeEpsilon = 1e-15) and OrientationIndex = filter, then the exact
fallback (math/big at a precision that makes the determinant exact = exact rational sign).
Generic in the arithmetic so the filter runs on Float (mirror) and on exact fields.
-/
import GeomVerif.Model.Rdp

namespace GeomVerif.Orient
open GeomVerif GeomVerif.Rdp

/-- orientation.Type: -1 Clockwise, 0 Collinear, 1 CounterClockwise; 2 = filter undecided. -/
abbrev OType := Int

variable {α : Type}

def signOf (F : FieldOps α) (x : α) : OType :=
  if F.lt F.zero x then 1 else if F.lt x F.zero then -1 else 0

/-- `a >= b` for floats without NaN is `!(a < b)`; kept separate because Go writes `>=`. -/
def ge (F : FieldOps α) (a b : α) : Bool := !(F.lt a b)

/-- orientationIndexFilter: `eps` is dpSafeEpsilon. -/
def filter (F : FieldOps α) (eps : α) (ox oy ex ey px py : α) : OType :=
  let detleft := F.mul (F.sub ox px) (F.sub ey py)
  let detright := F.mul (F.sub oy py) (F.sub ex px)
  let det := F.sub detleft detright
  let neg (x : α) : α := F.sub F.zero x
  if F.lt F.zero detleft then
    if !(F.lt F.zero detright) then signOf F det
    else
      let detsum := F.add detleft detright
      let errbound := F.mul eps detsum
      if ge F det errbound || ge F (neg det) errbound then signOf F det else 2
  else if F.lt detleft F.zero then
    if !(F.lt detright F.zero) then signOf F det
    else
      let detsum := F.sub (neg detleft) detright
      let errbound := F.mul eps detsum
      if ge F det errbound || ge F (neg det) errbound then signOf F det else 2
  else signOf F det

/-- The determinant the exact fallback evaluates: (e−o)×(p−e). -/
def fallbackDet (F : FieldOps α) (ox oy ex ey px py : α) : α :=
  F.sub (F.mul (F.sub ex ox) (F.sub py ey)) (F.mul (F.sub ey oy) (F.sub px ex))

end GeomVerif.Orient
