/-
Model of xy/point_centroid.go, line_centroid.go, area_centroid.go and of
IsRingCounterClockwise / SignedArea in xy/cga.go.  Rings and lines are vertex lists (X,Y of
each coordinate); generic arithmetic; orientation is a parameter (exact, by C10).
-/
import GeomVerif.Model.Distance

namespace GeomVerif.Centroid
open GeomVerif GeomVerif.Rdp GeomVerif.Locate GeomVerif.Intersect GeomVerif.Dist

variable {α : Type}

/-- PointsCentroid / MultiPointCentroid / PointsCentroidFlat: `ofNat` converts the count. -/
def pointsCentroid (F : DOps α) (ofNat : Nat → α) (ps : List (P α)) : P α :=
  let s := ps.foldl (fun (acc : α × α) p => (F.add acc.1 p.1, F.add acc.2 p.2)) (F.zero, F.zero)
  (F.div s.1 (ofNat ps.length), F.div s.2 (ofNat ps.length))

/-- State of the length-weighted accumulation (centSum, totalLength). -/
structure LineAcc (α : Type) where
  cx : α
  cy : α
  total : α

def addSegments (F : DOps α) (two : α) : LineAcc α → List (P α) → LineAcc α
  | acc, a :: b :: rest =>
      let len := dist2D F a b
      let midx := F.div (F.add a.1 b.1) two
      let midy := F.div (F.add a.2 b.2) two
      addSegments F two ⟨F.add acc.cx (F.mul len midx), F.add acc.cy (F.mul len midy),
        F.add acc.total len⟩ (b :: rest)
  | acc, _ => acc

/-- LinesCentroid / LinearRingsCentroid / MultiLineCentroid -/
def linesCentroid (F : DOps α) (two : α) (lines : List (List (P α))) : P α :=
  let acc := lines.foldl (addSegments F two) ⟨F.zero, F.zero, F.zero⟩
  (F.div acc.cx acc.total, F.div acc.cy acc.total)

/-- IsRingCounterClockwise on a closed ring `v₀ … v_{n-1} v₀` given as an array of n+1 vertices.
`none` = the panic for fewer than three points. -/
def isCCW (F : DOps α) (orient : P α → P α → P α → Int) (ring : Array (P α)) : Option Bool :=
  let nPts := ring.size - 1
  if nPts < 3 then none else
  let get (i : Nat) : P α := ring.getD i (F.zero, F.zero)
  -- highest point (first maximum of y over all n+1 entries)
  let hi := (List.range ring.size).foldl (fun h i => if F.lt (get h).2 (get i).2 then i else h) 0
  -- distinct point before / after (at most nPts steps)
  let rec prev (fuel i : Nat) : Nat :=
    match fuel with
    | 0 => i
    | f + 1 =>
        let j := if i = 0 then nPts else i - 1
        if !(peq F.toDetOps (get j) (get hi)) || j == hi then j else prev f j
  let rec next (fuel i : Nat) : Nat :=
    match fuel with
    | 0 => i
    | f + 1 =>
        let j := (i + 1) % nPts
        if !(peq F.toDetOps (get j) (get hi)) || j == hi then j else next f j
  let iPrev := prev (nPts + 2) hi
  let iNext := next (nPts + 2) hi
  let p := get iPrev; let h := get hi; let n := get iNext
  if peq F.toDetOps p h || peq F.toDetOps n h || peq F.toDetOps p n then some false
  else
    let disc := orient p h n
    if disc == 0 then some (F.lt n.1 p.1) else some (disc > 0)

/-- SignedArea (clockwise positive). -/
def signedArea (F : DOps α) (two : α) (ring : Array (P α)) : α :=
  if ring.size < 3 then F.zero else
  let get (i : Nat) : P α := ring.getD i (F.zero, F.zero)
  let x0 := (get 0).1
  let sum := (List.range (ring.size - 2)).foldl (fun s k =>
    let i := k + 1
    let x := F.sub (get i).1 x0
    F.add s (F.mul x (F.sub (get (i - 1)).2 (get (i + 1)).2))) F.zero
  F.div sum two

/-- Accumulators of AreaCentroidCalculator. -/
structure AreaAcc (α : Type) where
  cg3x : α
  cg3y : α
  areasum2 : α
  line : LineAcc α

def area2 (F : DOps α) (p1 p2 p3 : P α) : α :=
  F.sub (F.mul (F.sub p2.1 p1.1) (F.sub p3.2 p1.2)) (F.mul (F.sub p3.1 p1.1) (F.sub p2.2 p1.2))

def addTriangles (F : DOps α) (base : P α) (sign : α) : AreaAcc α → List (P α) → AreaAcc α
  | acc, a :: b :: rest =>
      let cx := F.add (F.add base.1 a.1) b.1
      let cy := F.add (F.add base.2 a.2) b.2
      let ar := area2 F base a b
      addTriangles F base sign
        { acc with cg3x := F.add acc.cg3x (F.mul (F.mul sign ar) cx),
                   cg3y := F.add acc.cg3y (F.mul (F.mul sign ar) cy),
                   areasum2 := F.add acc.areasum2 (F.mul sign ar) } (b :: rest)
  | acc, _ => acc

/-- addShell / addHole. `none` propagates the fewer-than-three-points panic. -/
def addRing (F : DOps α) (orient : P α → P α → P α → Int) (two : α) (base : P α) (isHole : Bool)
    (acc : AreaAcc α) (ring : List (P α)) : Option (AreaAcc α) := do
  let ccw ← isCCW F orient ring.toArray
  let isPositiveArea := if isHole then ccw else !ccw
  let sign := if isPositiveArea then F.neg F.one else F.one
  let acc := addTriangles F base sign acc ring
  pure { acc with line := addSegments F two acc.line ring }

/-- PolygonsCentroid / MultiPolygonCentroid: polygons are lists of rings (shell first). -/
def areaCentroid (F : DOps α) (orient : P α → P α → P α → Int) (two three : α)
    (polys : List (List (List (P α)))) : Option (P α) := do
  let base ← (do let p ← polys.head?; let r ← p.head?; r.head?)
  let zero : AreaAcc α := ⟨F.zero, F.zero, F.zero, ⟨F.zero, F.zero, F.zero⟩⟩
  let acc ← polys.foldlM (fun acc poly =>
    match poly with
    | [] => none
    | shell :: holes => do
        let acc ← addRing F orient two base false acc shell
        holes.foldlM (fun a h => addRing F orient two base true a h) acc) zero
  if F.lt F.zero (F.abs acc.areasum2) then
    pure (F.div (F.div acc.cg3x three) acc.areasum2, F.div (F.div acc.cg3y three) acc.areasum2)
  else pure (F.div acc.line.cx acc.line.total, F.div acc.line.cy acc.line.total)

end GeomVerif.Centroid
