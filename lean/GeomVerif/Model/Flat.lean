/-
Model of /repo flat.go, geom.go (Layout), and the per-type constructors /
SetCoords / Coords of point.go … multipolygon.go.  One Lean function per Go
function, same offset-threading, explicit `.panic` where Go panics.
Core Lean only (the driver links this).
-/
import GeomVerif.Basic

namespace GeomVerif

/-- geom.Layout: 0 NoLayout, 1 XY, 2 XYZ, 3 XYM, 4 XYZM, n>4 Layout(n). -/
abbrev Layout := Nat

namespace Layout
/-- geom.go `Layout.Stride`. -/
def stride : Layout → Nat
  | 0 => 0
  | 1 => 2
  | 2 => 3
  | 3 => 3
  | 4 => 4
  | n => n

/-- geom.go `Layout.ZIndex` (`none` = -1). -/
def zIndex : Layout → Option Nat
  | 0 => none
  | 1 => none
  | 3 => none
  | _ => some 2

/-- geom.go `Layout.MIndex` (`none` = -1). -/
def mIndex : Layout → Option Nat
  | 0 => none
  | 1 => none
  | 2 => none
  | 3 => some 2
  | _ => some 3
end Layout

/-! ## Geometry records (flat.go `geom0..geom3`) -/

structure G1 (α : Type) where
  layout : Layout
  stride : Nat
  flat : List α
  srid : Int := 0
  deriving Repr, BEq, DecidableEq

structure G2 (α : Type) where
  layout : Layout
  stride : Nat
  flat : List α
  ends : List Nat
  srid : Int := 0
  deriving Repr, BEq, DecidableEq

structure G3 (α : Type) where
  layout : Layout
  stride : Nat
  flat : List α
  endss : List (List Nat)
  srid : Int := 0
  deriving Repr, BEq, DecidableEq

variable {α : Type}

/-- Go `s[a:b]` on a slice whose capacity equals its length. -/
def slice (xs : List α) (a b : Nat) : Outcome (List α) :=
  if a ≤ b ∧ b ≤ xs.length then .ok ((xs.drop a).take (b - a)) else .panic "slice bounds"

/-! ## deflate (flat.go:283-338) -/

def deflate0 (flat : List α) (c : List α) (stride : Nat) : Outcome (List α) :=
  if c.length ≠ stride then .err (.strideMismatch c.length stride) else .ok (flat ++ c)

def deflate1 (flat : List α) : List (List α) → Nat → Outcome (List α)
  | [], _ => .ok flat
  | c :: cs, stride => do
      let f ← deflate0 flat c stride
      deflate1 f cs stride

def deflate2 (flat : List α) (ends : List Nat) :
    List (List (List α)) → Nat → Outcome (List α × List Nat)
  | [], _ => .ok (flat, ends)
  | cs1 :: rest, stride => do
      let f ← deflate1 flat cs1 stride
      deflate2 f (ends ++ [f.length]) rest stride

def deflate3 (flat : List α) (endss : List (List Nat)) :
    List (List (List (List α))) → Nat → Outcome (List α × List (List Nat))
  | [], _ => .ok (flat, endss)
  | cs2 :: rest, stride => do
      let (f, ends) ← deflate2 flat [] cs2 stride
      deflate3 f (endss ++ [ends]) rest stride

/-! ## inflate (flat.go:340-383) -/

def inflate0 (flat : List α) (offset end_ stride : Nat) : Outcome (List α) :=
  if offset + stride ≠ end_ then .panic "geom: stride mismatch" else slice flat offset end_

/-- The loop of `inflate1`: `n` coordinates starting at `offset`. -/
def inflate1Loop (flat : List α) (stride : Nat) : Nat → Nat → Outcome (List (List α))
  | 0, _ => .ok []
  | n + 1, offset => do
      let c ← inflate0 flat offset (offset + stride) stride
      let rest ← inflate1Loop flat stride n (offset + stride)
      .ok (c :: rest)

/-- flat.go `inflate1` after the D6 repair (`stride == 0` returns no coordinates
    instead of dividing by zero). -/
def inflate1 (flat : List α) (offset end_ stride : Nat) : Outcome (List (List α)) :=
  if stride = 0 then .ok []
  else if end_ < offset then .panic "makeslice: len out of range"
  else inflate1Loop flat stride ((end_ - offset) / stride) offset

def inflate2 (flat : List α) (offset : Nat) : List Nat → Nat → Outcome (List (List (List α)))
  | [], _ => .ok []
  | e :: ends, stride => do
      let c ← inflate1 flat offset e stride
      let rest ← inflate2 flat e ends stride
      .ok (c :: rest)

def inflate3 (flat : List α) (offset : Nat) :
    List (List Nat) → Nat → Outcome (List (List (List (List α))))
  | [], _ => .ok []
  | ends :: endss, stride => do
      let c ← inflate2 flat offset ends stride
      let offset' := match ends.getLast? with
        | some e => e
        | none => offset
      let rest ← inflate3 flat offset' endss stride
      .ok (c :: rest)

/-! ## verify() (flat.go:96-243), reached through the `verif` hook -/

inductive VerifyErr where
  | strideLayout | nonEmptyFlat | lengthStride | nonEmptyEnds | nonEmptyEndss
  | misaligned | outOfOrder | incorrectEnd
  deriving Repr, BEq, DecidableEq

def verifyEnds (stride : Nat) : List Nat → Nat → Except VerifyErr Nat
  | [], offset => .ok offset
  | e :: es, offset =>
      if e % stride ≠ 0 then .error .misaligned
      else if e < offset then .error .outOfOrder
      else verifyEnds stride es e

def verifyEndss (stride : Nat) : List (List Nat) → Nat → Except VerifyErr Nat
  | [], offset => .ok offset
  | es :: ess, offset =>
      match verifyEnds stride es offset with
      | .error e => .error e
      | .ok o => verifyEndss stride ess o

def verify0 (g : G1 α) : Except VerifyErr Unit :=
  if g.stride ≠ g.layout.stride then .error .strideLayout
  else if g.stride = 0 then (if g.flat.length ≠ 0 then .error .nonEmptyFlat else .ok ())
  else if g.flat.length ≠ g.stride then .error .lengthStride
  else .ok ()

def verify1 (g : G1 α) : Except VerifyErr Unit :=
  if g.stride ≠ g.layout.stride then .error .strideLayout
  else if g.stride = 0 then (if g.flat.length ≠ 0 then .error .nonEmptyFlat else .ok ())
  else if g.flat.length % g.stride ≠ 0 then .error .lengthStride
  else .ok ()

def verify2 (g : G2 α) : Except VerifyErr Unit :=
  if g.stride ≠ g.layout.stride then .error .strideLayout
  else if g.stride = 0 then
    (if g.flat.length ≠ 0 then .error .nonEmptyFlat
     else if g.ends.length ≠ 0 then .error .nonEmptyEnds else .ok ())
  else if g.flat.length % g.stride ≠ 0 then .error .lengthStride
  else match verifyEnds g.stride g.ends 0 with
    | .error e => .error e
    | .ok o => if o ≠ g.flat.length then .error .incorrectEnd else .ok ()

def verify3 (g : G3 α) : Except VerifyErr Unit :=
  if g.stride ≠ g.layout.stride then .error .strideLayout
  else if g.stride = 0 then
    (if g.flat.length ≠ 0 then .error .nonEmptyFlat
     else if g.endss.length ≠ 0 then .error .nonEmptyEndss else .ok ())
  else if g.flat.length % g.stride ≠ 0 then .error .lengthStride
  else match verifyEndss g.stride g.endss 0 with
    | .error e => .error e
    | .ok o => if o ≠ g.flat.length then .error .incorrectEnd else .ok ()

/-! ## Per-type SetCoords / Coords -/

/-- Point / geom0: `SetCoords` on a fresh `NewPoint(l)`. -/
def Point.setCoords (l : Layout) (c : List α) : Outcome (G1 α) := do
  let f ← deflate0 [] c l.stride
  .ok { layout := l, stride := l.stride, flat := f }

def Point.coords (g : G1 α) : Outcome (List α) :=
  inflate0 g.flat 0 g.flat.length g.stride

/-- LineString / LinearRing (geom1). -/
def Line.setCoords (l : Layout) (cs : List (List α)) : Outcome (G1 α) := do
  let f ← deflate1 [] cs l.stride
  .ok { layout := l, stride := l.stride, flat := f }

def Line.coords (g : G1 α) : Outcome (List (List α)) :=
  inflate1 g.flat 0 g.flat.length g.stride

/-- geom1.NumCoords after the D6 repair. -/
def Line.numCoords (g : G1 α) : Nat :=
  if g.stride = 0 then 0 else g.flat.length / g.stride

/-- Polygon / MultiLineString (geom2). -/
def Poly.setCoords (l : Layout) (cs : List (List (List α))) : Outcome (G2 α) := do
  let (f, ends) ← deflate2 [] [] cs l.stride
  .ok { layout := l, stride := l.stride, flat := f, ends := ends }

def Poly.coords (g : G2 α) : Outcome (List (List (List α))) :=
  inflate2 g.flat 0 g.ends g.stride

/-- MultiPolygon (geom3). -/
def MPoly.setCoords (l : Layout) (cs : List (List (List (List α)))) : Outcome (G3 α) := do
  let (f, endss) ← deflate3 [] [] cs l.stride
  .ok { layout := l, stride := l.stride, flat := f, endss := endss }

def MPoly.coords (g : G3 α) : Outcome (List (List (List (List α)))) :=
  inflate3 g.flat 0 g.endss g.stride

/-- multipoint.go `SetCoords`: a `nil` member (here `none`) is an empty point. -/
def MPoint.setLoop (stride : Nat) (flat : List α) (ends : List Nat) :
    List (Option (List α)) → Outcome (List α × List Nat)
  | [] => .ok (flat, ends)
  | none :: cs => MPoint.setLoop stride flat (ends ++ [flat.length]) cs
  | some c :: cs => do
      let f ← deflate0 flat c stride
      MPoint.setLoop stride f (ends ++ [f.length]) cs

def MPoint.setCoords (l : Layout) (cs : List (Option (List α))) : Outcome (G2 α) := do
  let (f, ends) ← MPoint.setLoop l.stride [] [] cs
  .ok { layout := l, stride := l.stride, flat := f, ends := ends }

/-- multipoint.go `NewMultiPointFlat(layout, flatCoords, opts...)`: `ends` is what the
`NewMultiPointFlatOptionWithEnds` option supplies (`none`: the option was not given, or was given
a nil slice); without it every coordinate is a non-empty point. -/
def MPoint.newFlat (l : Layout) (flat : List α) (ends : Option (List Nat)) : G2 α :=
  let stride := l.stride
  let e := match ends with
    | some e => e
    | none =>
      if flat.length > 0 then
        let n := if stride > 0 then flat.length / stride else 0
        (List.range n).map fun i => (i + 1) * stride
      else []
  { layout := l, stride := stride, flat := flat, ends := e }

/-- multipoint.go `Coords`. -/
def MPoint.coordsLoop (flat : List α) (stride : Nat) :
    List Nat → Nat → Nat → Outcome (List (Option (List α)))
  | [], _, _ => .ok []
  | e :: ends, offset, prevEnd =>
      if e ≠ prevEnd then do
        let c ← inflate0 flat offset (offset + stride) stride
        let rest ← MPoint.coordsLoop flat stride ends (offset + stride) e
        .ok (some c :: rest)
      else do
        let rest ← MPoint.coordsLoop flat stride ends offset e
        .ok (none :: rest)

def MPoint.coords (g : G2 α) : Outcome (List (Option (List α))) :=
  MPoint.coordsLoop g.flat g.stride g.ends 0 0

end GeomVerif
