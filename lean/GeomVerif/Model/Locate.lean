/-
Model of xy/internal/robustdeterminate (Devillers' SignOfDet2x2), the ray-crossing
counter (xy/internal/raycrossing) and the point-on-line test of the robust intersector
(IsPointWithinLineBounds + two exact orientations).  Generic in the arithmetic.
-/
import GeomVerif.Model.Orient

namespace GeomVerif.Locate
open GeomVerif GeomVerif.Rdp GeomVerif.Orient

/-- Arithmetic with `floor` and negation for Devillers' algorithm. -/
structure DetOps (α : Type) extends FieldOps α where
  floor : α → α
  neg : α → α

variable {α : Type}

/-! The main loop of SignOfDet2x2 (entries strictly positive), written as its three stages: reduce
row 2 by row 1 (`detStep`), then row 1 by row 2 (`detHalfB`), then the zero tests before the next
iteration (`detHalfC`); `rec` is the next iteration.  Each early `return` of the Go loop is one
branch here, in the same order. -/

def detHalfC (F : DetOps α) (rec : α → α → α → α → Int → Int) (x1 y1 x2 y2 : α) (sign : Int) : Int :=
  if F.isZero y1 then (if F.isZero x1 then 0 else sign)
  else if F.isZero x1 then -sign
  else rec x1 y1 x2 y2 sign

def detHalfB (F : DetOps α) (rec : α → α → α → α → Int → Int) (x1 y1 x2 y2 : α) (sign : Int) : Int :=
  if F.isZero y2 then (if F.isZero x2 then 0 else -sign)
  else if F.isZero x2 then sign
  else
    let k := F.floor (F.div x1 x2)
    let x1 := F.sub x1 (F.mul k x2)
    let y1 := F.sub y1 (F.mul k y2)
    if F.lt y1 F.zero then sign
    else if F.lt y2 y1 then -sign
    else if F.lt (F.add x1 x1) x2 then
      (if F.lt y2 (F.add y1 y1) then -sign else detHalfC F rec x1 y1 x2 y2 sign)
    else
      (if F.lt (F.add y1 y1) y2 then sign else detHalfC F rec (F.sub x2 x1) (F.sub y2 y1) x2 y2 (-sign))

def detStep (F : DetOps α) (rec : α → α → α → α → Int → Int) (x1 y1 x2 y2 : α) (sign : Int) : Int :=
  let k := F.floor (F.div x2 x1)
  let x2 := F.sub x2 (F.mul k x1)
  let y2 := F.sub y2 (F.mul k y1)
  if F.lt y2 F.zero then -sign
  else if F.lt y1 y2 then sign
  else if F.lt (F.add x2 x2) x1 then
    (if F.lt y1 (F.add y2 y2) then sign else detHalfB F rec x1 y1 x2 y2 sign)
  else
    (if F.lt (F.add y2 y2) y1 then -sign else detHalfB F rec x1 y1 (F.sub x1 x2) (F.sub y1 y2) (-sign))

def detLoop (F : DetOps α) : Nat → α → α → α → α → Int → Int
  | 0, _, _, _, _, _ => 0     -- fuel exhausted (not reached: the loop is a Euclidean descent)
  | fuel + 1, x1, y1, x2, y2, sign => detStep F (detLoop F fuel) x1 y1 x2 y2 sign

/-! robustdeterminate.SignOfDet2x2: zero entries, then the permutation that makes 0 < y1 ≤ y2, then the
signs of the x entries (`detXStage`), then the loop. -/

def detXStage (F : DetOps α) (fuel : Nat) (x1 y1 x2 y2 : α) (sign : Int) : Int :=
  let pos (x : α) : Bool := F.lt F.zero x
  if pos x1 then
    if pos x2 then
      (if F.lt x2 x1 then sign else detLoop F fuel x1 y1 x2 y2 sign)
    else sign
  else
    if pos x2 then -sign
    else if !(F.lt x1 x2) then detLoop F fuel (F.neg x1) y1 (F.neg x2) y2 (-sign)
    else -sign

def signOfDet2x2 (F : DetOps α) (fuel : Nat) (x1 y1 x2 y2 : α) : Int :=
  let pos (x : α) : Bool := F.lt F.zero x
  if F.isZero x1 || F.isZero y2 then
    if F.isZero y1 || F.isZero x2 then 0
    else if pos y1 then (if pos x2 then -1 else 1)
    else (if pos x2 then 1 else -1)
  else if F.isZero y1 || F.isZero x2 then
    if pos y2 then (if pos x1 then 1 else -1)
    else (if pos x1 then -1 else 1)
  else
    if pos y1 then
      if pos y2 then
        (if F.lt y2 y1 then detXStage F fuel x2 y2 x1 y1 (-1) else detXStage F fuel x1 y1 x2 y2 1)
      else
        (if !(F.lt (F.neg y2) y1) then detXStage F fuel x1 y1 (F.neg x2) (F.neg y2) (-1)
         else detXStage F fuel (F.neg x2) (F.neg y2) x1 y1 1)
    else
      if pos y2 then
        (if !(F.lt y2 (F.neg y1)) then detXStage F fuel (F.neg x1) (F.neg y1) x2 y2 (-1)
         else detXStage F fuel x2 y2 (F.neg x1) (F.neg y1) 1)
      else
        (if !(F.lt y1 y2) then detXStage F fuel (F.neg x1) (F.neg y1) (F.neg x2) (F.neg y2) 1
         else detXStage F fuel (F.neg x2) (F.neg y2) (F.neg x1) (F.neg y1) (-1))


/-- `a == b` (inputs carry no NaN). -/
def feq (F : DetOps α) (a b : α) : Bool := !(F.lt a b) && !(F.lt b a)

/-- State of the ray-crossing counter. -/
structure Counter where
  crossings : Nat := 0
  onSegment : Bool := false
  deriving Repr, BEq, DecidableEq

/-- rayCrossingCounter.countSegment for test point (px,py) and segment p1 → p2. -/
def countSegment (F : DetOps α) (fuel : Nat) (px py : α) (c : Counter) (p1x p1y p2x p2y : α) :
    Counter :=
  if F.lt p1x px && F.lt p2x px then c
  else if feq F px p2x && feq F py p2y then { c with onSegment := true }
  else if feq F p1y py && feq F p2y py then
    let minx := if F.lt p2x p1x then p2x else p1x
    let maxx := if F.lt p2x p1x then p1x else p2x
    if !(F.lt px minx) && !(F.lt maxx px) then { c with onSegment := true } else c
  else if (F.lt py p1y && !(F.lt py p2y)) || (F.lt py p2y && !(F.lt py p1y)) then
    let x1 := F.sub p1x px
    let y1 := F.sub p1y py
    let x2 := F.sub p2x px
    let y2 := F.sub p2y py
    let s := signOfDet2x2 F fuel x1 y1 x2 y2
    if s = 0 then { c with onSegment := true }
    else
      let s := if F.lt y2 y1 then -s else s
      if s > 0 then { c with crossings := c.crossings + 1 } else c
  else c

/-- location.Type: 0 Interior? We use the library's numbering through the harness:
    interior / boundary / exterior as atoms. -/
inductive Loc where
  | interior | boundary | exterior
  deriving Repr, BEq, DecidableEq

def Counter.location (c : Counter) : Loc :=
  if c.onSegment then .boundary else if c.crossings % 2 = 1 then .interior else .exterior

/-- raycrossing.LocatePointInRing over the vertex list (XY of each coordinate):
    segment i is (ring[i], ring[i-1]); returns as soon as the point is on a segment. -/
def locateLoop (F : DetOps α) (fuel : Nat) (px py : α) : Counter → List (α × α) → Loc
  | c, a :: b :: rest =>
      let c' := countSegment F fuel px py c b.1 b.2 a.1 a.2
      if c'.onSegment then c'.location else locateLoop F fuel px py c' (b :: rest)
  | c, _ => c.location

def locate (F : DetOps α) (fuel : Nat) (px py : α) (ring : List (α × α)) : Loc :=
  locateLoop F fuel px py {} ring

end GeomVerif.Locate
