/-
Heap model for C16 (Clone shares no storage).  A heap is a list of arrays; a Go
slice is (array id, offset, length, capacity); an object is a record of scalar
metadata plus a list of optional slices (`none` = nil slice): [flat] for geom0/1,
[flat, ends] for geom2, [flat, row₀, row₁, …] for geom3, [min, max] for Bounds,
[c] for a Coord.  Mutators are sequences of generic slice operations with Go's
`append` semantics (in place iff capacity allows, else a fresh array).
-/
import GeomVerif.Basic

namespace GeomVerif.Heap

abbrev Cell := UInt64
abbrev Heap := List (List Cell)

structure Slice where
  arr : Nat
  off : Nat
  len : Nat
  cap : Nat
  deriving Repr, BEq, DecidableEq

def read (h : Heap) (s : Slice) : List Cell := ((h.getD s.arr []).drop s.off).take s.len

/-- Overwrite `vs` at position `pos` of array `a` (positions beyond the array are dropped). -/
def writeAt (a : List Cell) (pos : Nat) (vs : List Cell) : List Cell :=
  a.take pos ++ vs.take (a.length - pos) ++ a.drop (pos + vs.length)

def setArr (h : Heap) (i : Nat) (a : List Cell) : Heap := h.set i a

/-- Generic slice operations of an object. `k` selects the slice. -/
inductive GOp where
  | wr (k i : Nat) (v : Cell)            -- s[i] = v
  | wrAll (k : Nat) (vs : List Cell)     -- overwrite the whole slice in place (Reverse, TransformInPlace)
  | app (k : Nat) (vs : List Cell)       -- s = append(s, vs...)
  | setFresh (k : Nat) (vs : Option (List Cell))  -- s = nil | freshly allocated copy of vs
  | addSlice (vs : Option (List Cell))   -- one more slice (MultiPolygon: append a row to endss)
  deriving Repr

structure ObjH where
  scalars : List Int                 -- layout, stride, srid … (scalars, copied by value)
  slices : List (Option Slice)
  deriving Repr

structure ObjV where
  scalars : List Int
  slices : List (Option (List Cell))
  deriving Repr, BEq, DecidableEq

def absObj (h : Heap) (o : ObjH) : ObjV := ⟨o.scalars, o.slices.map (Option.map (read h))⟩

/-- Allocate a fresh array holding `vs` with capacity `cap ≥ vs.length` (zero padded). -/
def alloc (h : Heap) (vs : List Cell) (cap : Nat) : Heap × Slice :=
  (h ++ [vs ++ List.replicate (cap - vs.length) 0], ⟨h.length, 0, vs.length, max cap vs.length⟩)

/-- Heap semantics of one generic operation (Go semantics). `grow old need` is the
runtime's capacity growth policy; any function is allowed. -/
def stepH (grow : Nat → Nat → Nat) (h : Heap) (o : ObjH) : GOp → Outcome (Heap × ObjH)
  | .wr k i v =>
      match o.slices[k]? with
      | some (some s) =>
          if i < s.len then
            .ok (setArr h s.arr (writeAt (h.getD s.arr []) (s.off + i) [v]), o)
          else .panic "index out of range"
      | _ => .panic "index out of range"
  | .wrAll k vs =>
      match o.slices[k]? with
      | some (some s) =>
          if vs.length = s.len then
            .ok (setArr h s.arr (writeAt (h.getD s.arr []) s.off vs), o)
          else .panic "length mismatch"
      | some none => if vs.length = 0 then .ok (h, o) else .panic "length mismatch"
      | none => .panic "no such slice"
  | .app k vs =>
      match o.slices[k]? with
      | some (some s) =>
          if s.len + vs.length ≤ s.cap then
            .ok (setArr h s.arr (writeAt (h.getD s.arr []) (s.off + s.len) vs),
                 { o with slices := o.slices.set k (some { s with len := s.len + vs.length }) })
          else
            let (h', s') := alloc h (read h s ++ vs) (grow s.cap (s.len + vs.length))
            .ok (h', { o with slices := o.slices.set k (some s') })
      | some none =>
          if vs.isEmpty then .ok (h, o)          -- append(nil) stays nil
          else
            let (h', s') := alloc h vs (grow 0 vs.length)
            .ok (h', { o with slices := o.slices.set k (some s') })
      | none => .panic "no such slice"
  | .setFresh k vs =>
      if k < o.slices.length then
        match vs with
        | none => .ok (h, { o with slices := o.slices.set k none })
        | some vs =>
            let (h', s') := alloc h vs vs.length
            .ok (h', { o with slices := o.slices.set k (some s') })
      else .panic "no such slice"
  | .addSlice vs =>
      match vs with
      | none => .ok (h, { o with slices := o.slices ++ [none] })
      | some vs =>
          let (h', s') := alloc h vs vs.length
          .ok (h', { o with slices := o.slices ++ [some s'] })

/-- Value semantics of the same operations (what an independent copy would observe). -/
def stepV (o : ObjV) : GOp → Outcome ObjV
  | .wr k i v =>
      match o.slices[k]? with
      | some (some s) =>
          if i < s.length then .ok { o with slices := o.slices.set k (some (s.set i v)) }
          else .panic "index out of range"
      | _ => .panic "index out of range"
  | .wrAll k vs =>
      match o.slices[k]? with
      | some (some s) =>
          if vs.length = s.length then .ok { o with slices := o.slices.set k (some vs) }
          else .panic "length mismatch"
      | some none => if vs.length = 0 then .ok o else .panic "length mismatch"
      | none => .panic "no such slice"
  | .app k vs =>
      match o.slices[k]? with
      | some (some s) => .ok { o with slices := o.slices.set k (some (s ++ vs)) }
      | some none =>
          if vs.isEmpty then .ok o else .ok { o with slices := o.slices.set k (some vs) }
      | none => .panic "no such slice"
  | .setFresh k vs =>
      if k < o.slices.length then .ok { o with slices := o.slices.set k vs }
      else .panic "no such slice"
  | .addSlice vs => .ok { o with slices := o.slices ++ [vs] }

/-- derived.gen.go deriveDeepCopy*: every non-nil slice gets `make(len)` + `copy`; nil stays nil;
scalars are copied by value. -/
def cloneSlices (h : Heap) : List (Option Slice) → Heap × List (Option Slice)
  | [] => (h, [])
  | none :: rest =>
      let (h', r) := cloneSlices h rest
      (h', none :: r)
  | some s :: rest =>
      let (h1, s') := alloc h (read h s) s.len
      let (h2, r) := cloneSlices h1 rest
      (h2, some s' :: r)

def clone (h : Heap) (o : ObjH) : Heap × ObjH :=
  let (h', ss) := cloneSlices h o.slices
  (h', ⟨o.scalars, ss⟩)

/-- A two-object world: operations address the original (`false`) or the clone (`true`). -/
def runH (grow : Nat → Nat → Nat) (h : Heap) (a b : ObjH) :
    List (Bool × GOp) → Heap × ObjH × ObjH
  | [] => (h, a, b)
  | (side, op) :: rest =>
      if side then
        match stepH grow h b op with
        | .ok (h', b') => runH grow h' a b' rest
        | _ => runH grow h a b rest
      else
        match stepH grow h a op with
        | .ok (h', a') => runH grow h' a' b rest
        | _ => runH grow h a b rest

def runV (a b : ObjV) : List (Bool × GOp) → ObjV × ObjV
  | [] => (a, b)
  | (side, op) :: rest =>
      if side then
        match stepV b op with
        | .ok b' => runV a b' rest
        | _ => runV a b rest
      else
        match stepV a op with
        | .ok a' => runV a' b rest
        | _ => runV a b rest

end GeomVerif.Heap
