/-
Tie for the WKT parser model: facts about the tables and semantic actions that `harness extract`
regenerates from /repo/encoding/wkt/wkt.gen.go on every run.
-/
import GeomVerif.Model.WktParse

namespace GeomVerif.Tie
open GeomVerif GeomVerif.Generated GeomVerif.WktAct GeomVerif.WktParse

def isUnknown : Act → Bool
  | .unknown _ => true
  | _ => false

/-- Every `case N:` body of the generated parser was recognised by the translator. -/
theorem wkt_actions_translated : (wktActions.all fun a => !isUnknown a.2.2) = true := by decide

/-- The goyacc skeleton around the actions (driver loop, wktlex1, wktErrorMessage, wktTokname)
is the one Model/WktParse.lean ports. -/
theorem wkt_skeleton :
    wktSkeleton = [0xeeda1b698ecf48b5, 0xce62dab8564fd16e, 0xc8f1eee7461535f4, 0xbb71b334a33aa949] := by
  decide

/-- No production is empty, so the default action `$$ = $1` never reads a stale stack slot. -/
theorem wkt_no_epsilon : ((wktR2.toList.drop 1).all fun n => decide (1 ≤ n)) = true := by decide +kernel

/-- The `wktDollar` window of each action is exactly the production's right-hand side. -/
theorem wkt_dollar_window :
    (wktActions.all fun a => wktR2.getD a.1 0 == a.2.1) = true := by decide +kernel

/-- Frames are only pushed with NoLayout / XYM / XYZ / XYZM and keyword layouts are XYM / XYZ / XYZM:
the arguments for which `layoutStack.push` and `setTopLayout` do not panic (protocol of C06). -/
theorem wkt_layout_arguments :
    (wktActions.all fun a => match a.2.2 with
      | .pushFrame .lXY => false
      | .setLayout .lNoLayout => false
      | .setLayout .lXY => false
      | _ => true) = true := by decide

theorem wkt_error_mode : wktErrorVerbose = true ∧ wktErrorMessagesCount = 0 := by decide

theorem wkt_table_sizes :
    wktAct.size = wktLast.toNat ∧ wktPact.size = wktDef.size ∧ wktR1.size = wktR2.size ∧
    wktExca.size % 2 = 0 := by decide +kernel

end GeomVerif.Tie
