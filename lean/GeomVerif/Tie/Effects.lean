/-
Tie for C17: the may-write summary that /verif/effects computes from /repo's current source
(Generated/Effects.lean, regenerated on every C17 run) stays inside the allow-list below.

Every exported function or method of the module is a root.  A root may write
  * a parameter that is a stream (`io.Writer`, `io.Reader`): writing/consuming it is its purpose;
  * its receiver, when the method is one of the library's documented mutators or accumulators;
  * an explicitly listed output parameter.
Nothing may write a package-level variable (1000), an unknown location (2000), or any other
parameter — in particular no geometry, coordinate, coordinate slice or byte slice passed to a
query, encoder or decoder.  A root that does not appear in `Generated.effects` has an empty
may-write set: this is the hypothesis `Disc` of the theorems in Properties/C17.lean.
-/
import GeomVerif.Generated.Effects

namespace GeomVerif.Tie

def streamTypes : List String := ["io.Writer", "io.Reader"]

/-- Methods whose documented purpose is to change their receiver. -/
def mutatorMethods : List String :=
  [ -- geometry mutators
    "SetCoords", "MustSetCoords", "SetSRID", "Push", "MustPush", "Reverse", "Swap", "Reserve",
    "SetLayout", "MustSetLayout",
    -- Bounds and Coord
    "Extend", "Set",
    -- decoders into the receiver (database/sql Scanner, json.Unmarshaler)
    "Scan", "UnmarshalJSON",
    -- accumulators: centroid calculators, the tree set, the IGC encoder's writer state
    "AddPolygon", "AddLine", "AddLinearRing", "AddCoord", "AddPoint", "Insert", "Encode",
    -- the generated WKT parser/lexer objects (one per Unmarshal call)
    "Lex", "Error", "Parse" ]

/-- Output parameters (root, parameter index). -/
def outputParams : List (String × Nat) :=
  [ ("encoding/geojson.Unmarshal", 1),           -- *geom.T result
    ("encoding/wkbcommon.ReadFloatArray", 2),    -- destination array
    ("geom.SetSRID", 0),                         -- documented mutator function
    ("encoding/wkt.(*wktLex).Lex", 1),           -- goyacc: the lexer fills the parser's symbol
    ("encoding/wkt.(*wktParserImpl).Parse", 1),  -- goyacc: the parser drives its lexer
    ("geom.(*LineString).Swap", 1), ("geom.(*LinearRing).Swap", 1), ("geom.(*MultiLineString).Swap", 1),
    ("geom.(*MultiPoint).Swap", 1), ("geom.(*MultiPolygon).Swap", 1), ("geom.(*Point).Swap", 1),
    ("geom.(*Polygon).Swap", 1) ]

def allowedItem (root method : String) (it : Nat × String) : Bool :=
  it.1 < 1000 &&
    (streamTypes.contains it.2 || (it.1 == 0 && mutatorMethods.contains method)
      || outputParams.contains (root, it.1))

def rowAllowed (r : String × String × List (Nat × String)) : Bool :=
  r.2.2.all (allowedItem r.1 r.2.1)

/-- The regenerated may-write summary is inside the allow-list. -/
theorem effects_clean : (Generated.effects.all rowAllowed) = true := by decide

/-- Every callee outside the module has an entry in the analyser's externals table. -/
theorem effects_externals_known : Generated.effectsUnknownExternals = [] := by decide

/-- The analysis saw the API (guards against an analysis that silently loads nothing). -/
theorem effects_roots_present :
    (["xy.ConvexHull", "xy.ConvexHullFlat", "xy.IsPointInRing", "xy.Distance", "xy.SimplifyFlatCoords",
      "xy.Centroid", "xy/lineintersector.LineIntersectsLine", "bigxy.OrientationIndex",
      "encoding/wkb.Marshal", "encoding/wkb.Unmarshal", "encoding/ewkb.Marshal", "encoding/ewkb.Unmarshal",
      "encoding/wkt.Marshal", "encoding/wkt.Unmarshal", "encoding/geojson.Marshal",
      "encoding/geojson.Unmarshal", "encoding/igc.Read", "geom.(*Polygon).Area", "geom.(*geom0).Bounds",
      "geom.(*MultiPolygon).Clone", "geom.(*geom1).Coords", "transform.UniqueCoords"].all
      Generated.effectRoots.contains) = true := by decide

end GeomVerif.Tie
