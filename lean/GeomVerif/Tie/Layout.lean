/-
Tie: the model's Layout functions agree with the table obtained by running
geom.Layout.Stride/ZIndex/MIndex of /repo for layouts 0..16 (regenerated every run).
-/
import GeomVerif.Model.Flat
import GeomVerif.Generated.Layout

namespace GeomVerif.Tie
open GeomVerif

def optToInt : Option Nat → Int
  | none => -1
  | some n => n

theorem layout_stride : Generated.layoutStride = (List.range 17).map Layout.stride := by decide
theorem layout_zIndex :
    Generated.layoutZIndex = (List.range 17).map (fun l => optToInt (Layout.zIndex l)) := by decide
theorem layout_mIndex :
    Generated.layoutMIndex = (List.range 17).map (fun l => optToInt (Layout.mIndex l)) := by decide

end GeomVerif.Tie
