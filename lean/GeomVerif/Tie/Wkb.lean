/-
Tie: the type words the real encoders emit for every type x layout (and with an SRID)
are the ones the model and the reference encoder use; byte-order ids; type ids.
Regenerated from /repo on every run.
-/
import GeomVerif.Model.Wkb
import GeomVerif.Generated.WkbConsts

namespace GeomVerif.Tie
open GeomVerif GeomVerif.Wkb

def typeLayoutPairs : List (Nat × Layout) :=
  (List.range 7).flatMap fun k => [1, 2, 3, 4].map fun l => (k + 1, l)

theorem wkb_type_words :
    Generated.wkbTypeWords = typeLayoutPairs.map fun p => p.1 + (wkbDimOffset p.2).getD 0 := by decide
theorem ewkb_type_words :
    Generated.ewkbTypeWords = typeLayoutPairs.map fun p => p.1 + (ewkbDimFlags p.2).getD 0 := by
  decide
theorem ewkb_srid_type_words :
    Generated.ewkbSridTypeWords
      = typeLayoutPairs.map fun p => p.1 + (ewkbDimFlags p.2).getD 0 + ewkbSRID := by decide
theorem byte_order_ids : Generated.byteOrderIDs = [0, 1] := by decide
theorem type_ids : Generated.typeIDs = [pointID, lineStringID, polygonID, multiPointID,
    multiLineStringID, multiPolygonID, geometryCollectionID] := by decide
/-- Limits are disabled by default (the C04 check sets them explicitly per case). -/
theorem default_limits : Generated.defaultLimits = [0, -1, -1, -1] := by decide

end GeomVerif.Tie
