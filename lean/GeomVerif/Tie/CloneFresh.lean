/-
Tie for C16: what the result of every exported `Clone` may share with its argument, computed by
/verif/effects from /repo's current source (SSA; `Generated.cloneAliases`, regenerated on every
C16 and C17 run).  The result of a root is either a parameter (or a package variable) itself, or a
fresh object together with the set of parameters / package variables it may hold a reference to
(through any chain of fields, slices and interfaces).  For a deep copy both sets must be empty:
the clone is a fresh object from which nothing of the original is reachable.  This is the
hypothesis "a clone's slices start in their own arrays" of Properties/C16.lean, now read off the
code instead of assumed.
-/
import GeomVerif.Generated.Effects

namespace GeomVerif.Tie

/-- No exported Clone returns, or returns something that can reach, its receiver or a global. -/
theorem C16_clone_results_fresh : (Generated.cloneAliases.all fun r => r.2.isEmpty) = true := by decide

/-- The analysis saw every Clone of the API (guards against a summary that silently lists nothing). -/
theorem C16_clone_roots_present :
    (["geom.(*Point).Clone", "geom.(*LineString).Clone", "geom.(*LinearRing).Clone", "geom.(*Polygon).Clone",
      "geom.(*MultiPoint).Clone", "geom.(*MultiLineString).Clone", "geom.(*MultiPolygon).Clone",
      "geom.(*Bounds).Clone", "geom.(Coord).Clone"].all
      fun n => Generated.cloneAliases.any fun r => r.1 == n) = true := by decide

end GeomVerif.Tie
