/-
Core types shared by every model: the three-way outcome of a Go call
(value / returned error / panic), the error enum the correspondence compares,
and the S-expression wire format of the line protocol. Core Lean only.
-/
namespace GeomVerif

/-- Error values the library returns, mapped to a small enum (DESIGN Appendix A). -/
inductive Err where
  | strideMismatch (got want : Nat)
  | layoutMismatch (got want : Nat)
  | unsupportedLayout (l : Nat)
  | unsupportedType
  | unknownByteOrder (b : Nat)
  | unknownType (t : Nat)
  | unexpectedType
  | tooLarge (level n limit : Nat)
  | eof
  | unexpectedEof
  | writer
  | syntax
  | json
  | dimTooLow (n : Nat)
  | other (s : String)
  deriving Repr, BEq, DecidableEq, Inhabited

/-- Result of a Go call: a value, a returned error, or a run-time panic. -/
inductive Outcome (β : Type) where
  | ok (b : β)
  | err (e : Err)
  | panic (site : String)
  deriving Repr, BEq, DecidableEq, Inhabited

namespace Outcome
@[inline] def bind {β γ} (x : Outcome β) (f : β → Outcome γ) : Outcome γ :=
  match x with
  | ok b => f b
  | err e => err e
  | panic s => panic s

instance : Monad Outcome where
  pure := ok
  bind := bind

@[simp] theorem bind_ok {β γ} (b : β) (f : β → Outcome γ) : (ok b >>= f) = f b := rfl
@[simp] theorem bind_err {β γ} (e : Err) (f : β → Outcome γ) : (err e >>= f) = err e := rfl
@[simp] theorem bind_panic {β γ} (s : String) (f : β → Outcome γ) :
    ((panic s : Outcome β) >>= f) = panic s := rfl
@[simp] theorem pure_eq {β} (b : β) : (pure b : Outcome β) = ok b := rfl

def isOk {β} : Outcome β → Bool
  | ok _ => true
  | _ => false

def isPanic {β} : Outcome β → Bool
  | panic _ => true
  | _ => false

def map {β γ} (f : β → γ) : Outcome β → Outcome γ
  | ok b => ok (f b)
  | err e => err e
  | panic s => panic s
end Outcome

/-! ## S-expressions (wire format) -/

inductive Sexp where
  | atom (s : String)
  | list (xs : List Sexp)
  deriving Repr, Inhabited

namespace Sexp

partial def toStr : Sexp → String
  | atom s => s
  | list xs => "(" ++ " ".intercalate (xs.map toStr) ++ ")"

instance : ToString Sexp := ⟨toStr⟩

/-- Tokenise: parentheses are their own tokens, everything else splits on spaces. -/
def tokens (s : String) : List String := Id.run do
  let mut out : Array String := #[]
  let mut cur : String := ""
  for c in s.toList do
    if c == '(' || c == ')' then
      if cur != "" then out := out.push cur
      cur := ""
      out := out.push (String.singleton c)
    else if c == ' ' then
      if cur != "" then out := out.push cur
      cur := ""
    else
      cur := cur.push c
  if cur != "" then out := out.push cur
  return out.toList

mutual
partial def parseOne : List String → Option (Sexp × List String)
  | [] => none
  | "(" :: rest => do
      let (xs, rest') ← parseMany rest
      pure (list xs, rest')
  | ")" :: _ => none
  | t :: rest => some (atom t, rest)
partial def parseMany : List String → Option (List Sexp × List String)
  | [] => none
  | ")" :: rest => some ([], rest)
  | ts => do
      let (x, rest) ← parseOne ts
      let (xs, rest') ← parseMany rest
      pure (x :: xs, rest')
end

/-- Parse a whole string holding a sequence of S-expressions. -/
partial def parseAll (s : String) : Option (List Sexp) :=
  let rec go (ts : List String) (acc : Array Sexp) : Option (List Sexp) :=
    match ts with
    | [] => some acc.toList
    | _ => do
        let (x, rest) ← parseOne ts
        go rest (acc.push x)
  go (tokens s) #[]

def asNat? : Sexp → Option Nat
  | atom s => s.toNat?
  | _ => none

def asInt? : Sexp → Option Int
  | atom s => s.toInt?
  | _ => none

def asList? : Sexp → Option (List Sexp)
  | list xs => some xs
  | _ => none

def asAtom? : Sexp → Option String
  | atom s => some s
  | _ => none

def ofNat (n : Nat) : Sexp := atom (toString n)
def ofInt (n : Int) : Sexp := atom (toString n)
def ofBool (b : Bool) : Sexp := atom (if b then "true" else "false")

end Sexp

/-! ## Hex helpers (ordinates travel as 16 hex digits = IEEE-754 bit pattern) -/

def hexDigitVal? (c : Char) : Option Nat :=
  if '0' ≤ c ∧ c ≤ '9' then some (c.toNat - '0'.toNat)
  else if 'a' ≤ c ∧ c ≤ 'f' then some (c.toNat - 'a'.toNat + 10)
  else if 'A' ≤ c ∧ c ≤ 'F' then some (c.toNat - 'A'.toNat + 10)
  else none

def parseHexNat? (s : String) : Option Nat :=
  if s.isEmpty then none else
  s.toList.foldl (fun acc c => do
    let a ← acc
    let d ← hexDigitVal? c
    pure (a * 16 + d)) (some 0)

def hexDigitChar (n : Nat) : Char :=
  if n < 10 then Char.ofNat ('0'.toNat + n) else Char.ofNat ('a'.toNat + (n - 10))

def toHexFixed (width : Nat) (n : Nat) : String :=
  let rec go : Nat → Nat → List Char → List Char
    | 0, _, acc => acc
    | w+1, n, acc => go w (n / 16) (hexDigitChar (n % 16) :: acc)
  String.ofList (go width n [])

def bitsAtom (b : UInt64) : Sexp := .atom (toHexFixed 16 b.toNat)

def Sexp.asBits? : Sexp → Option UInt64
  | .atom s => if s.length == 16 then (parseHexNat? s).map UInt64.ofNat else none
  | _ => none

/-- Bytes as a hex string (two digits per byte); the empty string is written `-`. -/
def bytesToHex (bs : List UInt8) : String :=
  if bs.isEmpty then "-" else String.join (bs.map fun b => toHexFixed 2 b.toNat)

def hexToBytes? (s : String) : Option (List UInt8) :=
  if s == "-" then some [] else
  let rec go : List Char → Option (List UInt8)
    | [] => some []
    | [_] => none
    | a :: b :: rest => do
        let x ← hexDigitVal? a
        let y ← hexDigitVal? b
        let tl ← go rest
        pure (UInt8.ofNat (x * 16 + y) :: tl)
  go s.toList

def Outcome.render {β} (f : β → String) : Outcome β → String
  | .ok b => "ok " ++ f b
  | .err e => "err " ++ (match e with
      | .strideMismatch g w => s!"strideMismatch {g} {w}"
      | .layoutMismatch g w => s!"layoutMismatch {g} {w}"
      | .unsupportedLayout l => s!"unsupportedLayout {l}"
      | .unsupportedType => "unsupportedType"
      | .unknownByteOrder b => s!"unknownByteOrder {b}"
      | .unknownType t => s!"unknownType {t}"
      | .unexpectedType => "unexpectedType"
      | .tooLarge l n lim => s!"tooLarge {l} {n} {lim}"
      | .eof => "eof"
      | .unexpectedEof => "unexpectedEof"
      | .writer => "writer"
      | .syntax => "syntax"
      | .json => "json"
      | .dimTooLow n => s!"dimTooLow {n}"
      | .other s => s!"other {s}")
  | .panic _ => "panic"

end GeomVerif
